#!/usr/bin/env python3
"""Regenerates MANIFEST.json from props.json and the claim table below."""
import json, subprocess, os

HERE = os.path.dirname(os.path.abspath(__file__))
props = json.load(open(os.path.join(HERE, "props.json")))

TECH = "contract-based deductive verification: VCs generated over go/ssa of /repo, discharged by z3/cvc5"

# id -> (claim text, level note, design ref)
CLAIMS = {
    "C01": ("row merge (MergeRows and helpers) verified for all inputs against the documented merge M written as a spec function; M is commutative, idempotent and "
            "invariant-preserving for all rows, associative / absorbing in the proved cases (no delete; no re-insert after delete on fully assigned rows); the general "
            "associativity and absorption laws fail on the real code and are recorded as known findings; kv value join verified",
            "absolute times within +-2^62 ns (precondition); the tree merge glue (Tree.Merge, mergeTrees body, the DiffIter adapter, both per-key callbacks, mergeRoots) is verified, WHICH keys mast.DiffIter delivers is an assumed clause; the generic fold-over-versions lemma is not mechanised", "DESIGN §6 C01"),
    "C16": ("node codec: marshalProto and unmarshalProto verified element-wise inverse (keys, the four value fields, child links including absent ones) for every node shape, "
            "all type assertions and indices safe; protobuf transport assumed faithful",
            "proto.Marshal/Unmarshal assumed (trusted/proto.contracts); flush-before-publish is an obligation on Commit; that a flushed node object is complete and immutable rests on the assumed mast MakeRoot contract", "DESIGN §6 C16"),
    "C20": ("New verified for every argument list: no panic, duplicated/unknown options rejected, numeric options parsed base 0 into the right field, registry changed only on success; convertSchema verified for an arbitrary parsed schema (key column = the declared PRIMARY KEY column, at most one key column, distinct names, no DEFAULT, index maps in column order); xConnect/xCreate hand the right arguments to New and a definition rejected at the declare step leaves no table registered (genuine defect found, replayed, fixed); NOT NULL on any column is enforced by Insert / Update (genuine defect found: it was declared but never enforced; replayed, fixed); UnquoteAll returns an option value as given or consumed to its end",
            "strings.SplitN, strconv.ParseInt assumed; UnquoteAll and the columns grammar (combinator parser: closures over mutable parser state) are outside the subset: what the parser returns for a given text is decided only by a bounded grammar run on the real code (labelled bounded)", "DESIGN §6 C20"),
    "C02": ("which columns a statement assigns (valuesToGo / xColumn no-change protocol), the row merge against the documented per-column rule M, the entry-level gate (update = documented kv join) "
            "and the write-time plumbing are verified for all inputs; the xColumn no-change defect was found, replayed at SQL level and fixed",
            "Insert/Update/Delete are verified against delta rows and M, the xUpdate glue hands on the right table, context, key and exactly the assigned columns; SQLite's vtab protocol assumed; known finding: the entry-level gate discards an older statement wholesale", "DESIGN §6 C02"),
    "C04": ("commit ordering proved on every control path: version object PUT only after a successful flush, parents retired only after the version was published, each parent copied to merged/ before it is "
            "deleted from current/, the new version never deleted, a failed commit retires nothing, xCommit issues no storage request",
            "request-level atomic, fail-stop object store; mast flush contract assumed; the lift from these ordering obligations to 'every crash prefix reads as old or new' is argued in DESIGN (uses M-absorb, proved for fully assigned rows only); the open-time merge commit goes through the same Commit; vacuum: history is deleted only after the purged tree was committed", "DESIGN §6 C04"),
    "C05": ("BEGIN/COMMIT/ROLLBACK state contracts at both layers: snapshot is an independent clone of the same abstract tree, rollback restores exactly it, a failed commit keeps it, "
            "write-time state machine (fixed for the transaction unless set explicitly, cleared at commit/rollback), connection context invariant",
            "mast.Clone independence assumed; SQLite calls the transaction callbacks in protocol order; statement-level rollback inside a transaction is SQLite's; known finding (obligation Update/post@later-statement-wins-at-equal-time): with ONE write time per transaction a later statement on the same row loses against an earlier one", "DESIGN §6 C05"),
    "C08": ("Go<->protobuf tagging and SQLite<->Go conversions verified inverse on the five storage classes (bitwise for REAL), codec and merge never alter a stored value object; "
            "the empty-TEXT defect of the binding is a known finding",
            "binding accessors/result setters assumed from their source; protobuf transport assumed", "DESIGN §6 C08"),
    "C13": ("effect contracts with ghost PUT/DELETE counters: Commit, Set, Tombstone, xSync and the transaction callbacks issue no PUT/DELETE on a read-only handle and leave the tree unchanged; "
            "moveMergedRoots requires a writable handle at every call site",
            "mutating requests are issued only through the three trusted primitives (PUT, DELETE, COPY wrappers); Open/OpenKV/New, Vacuum, DeleteHistoricVersions, refresh/version/changes/vacuum glue are under the same effect contracts; which callback SQLite invokes when is assumed", "DESIGN §6 C13"),
    "C15": ("connection attribute invariant (context carries exactly deadline and write_time) preserved by ResetContext/Begin/Commit/Rollback; write time read back from the context; "
            "retry idempotence at the row-merge level (M idempotent, commutative)",
            "package context assumed; s3db_conn UPDATE/Column, xDisconnect keep the connection invariant (two genuine defects found, replayed, fixed: DROP TABLE cancelled the connection context; an UPDATE of s3db_conn inside a transaction made the automatic write time permanent); statement-level retry idempotence rests on M-idempotent plus the statement contracts", "DESIGN §6 C15"),
    "C17": ("kv value join (LastWriteWins / firstTombstoneWins / Tombstoned) verified against the documented rule for all inputs; "
            "join laws as SMT lemmas; update/Get/Diff glue contracts",
            "the gob/json root codecs are assumed; mast.Mast Get/Insert assumed (finite-map contract); kv.Diff: the callback sees the visible values, in order, only when they differ (which keys DiffIter delivers is assumed); TraceHistory: starts at the current entry, strictly decreasing times, predecessor cutoff", "DESIGN §6 C17"),
    "C06": ("scan contracts: xBestIndex (both layers) proposes only windows the scan implements and reports ORDER BY as consumed only for a single key term; xFilter positions the cursor on the first key of the window for every operator/direction/bound combination; "
            "xNext steps in key order, skips kv tombstones and deleted rows, stops exactly at the window's end; Column returns the stored value of the current row; five genuine scan defects found, replayed at SQL level and fixed",
            "mast cursor contract assumed (immutable snapshot, strictly increasing keys) and compared with the real dependency by a bounded conformance run: its Backward part is REFUTED (known finding, dependency; s3db no longer requests descending scans, fix a29a1fb); key order treated as an opaque total preorder ordU consistent with Key.Order; SQLite re-checks constraints (Omit unset); known finding: statements of one transaction tie on the write time and the earlier one wins", "DESIGN §6 C06"),
    "C07": ("key order: typeIndex/orderType/order/Key.Order verified against SQLite's documented class order and numeric/text/blob comparison for all key pairs; NewKey/Value round trip; Key.Layer verified against its spec; "
            "two lemmas decide the cross-class clauses and both FAIL on the real code (known findings, replayed): the INTEGER/REAL comparison is not SQLite's exact one above 2^53 (not transitive), and keys that compare equal (INTEGER n, REAL n.0) get different mast layers (process panic on insert)",
            "within one storage class the order is a total order; the int->float conversion inside the Go contracts is an uninterpreted monotone function, its exact semantics enters through the SMT-LIB lemma (bit-vectors + floating point); mast's own use of Order/Layer is assumed", "DESIGN §6 C07, §12"),
    "C11": ("a historic open of named versions is a function of exactly those versions: kv.Open issues no LIST, merges strictly (any unreadable named version is an error, never a skip) exactly the named list, and every named version ends up merged; "
            "mergeRoots loop invariant carries this for every order of the random shuffle; a genuine defect (Clone failure skipped in strict mode) found, replayed and fixed; commit publishes the version object only after a successful flush",
            "naming of versions by content hash and immutability of stored objects rest on the assumed mast/MakeRoot contract; s3db_version (no name for uncommitted changes), Roots and OpenKV glue are under contract", "DESIGN §6 C11"),
    "C12": ("the two ends of a diff: kv.Open on a named version list (including the empty list = empty version) reads exactly those versions strictly, with no LIST and no write; ChangesCursor.Next: every delivered row is visible in the target version, no live entry is skipped, the end is reported only at the real end, a failed step is an error (two genuine defects found and fixed); s3db_changes xConnect: from/to reach their own side, never panics (genuine defect fixed)",
            "that mast's diff sequence is the set difference of the two trees is an assumed contract (trusted/mast.contracts), compared with the real dependency by a bounded conformance run", "DESIGN §6 C12"),
    "C14": ("errdrop obligations: wherever a function under contract returns a nil error or a loop goes round again, no error a callee reported on the way was swallowed (errors tolerated by design are named in the contract with the reason, several only under a condition such as nosuchkey(e)); an acknowledged commit means the version object was published; error propagation contracts: every function under contract returns an error or its full postcondition on every path (scan stepping, statements, commit, open/merge, listing, loading), no nil dereference, index or type-assertion panic for any input; "
            "failed commit retires nothing; strict opens never skip",
            "hangs, wall-clock bounds and dependency internals are outside contracts; ChangesCursor, Vacuum, OpenKV and the module glue (xConnect/xCreate/xDisconnect/xOpen, s3db_conn, s3db_changes) are under the same no-panic / error-or-full-post contracts", "DESIGN §6 C14"),
    "C09": ("vacuum: only rows that are already invisible (deleted) are turned into tombstones; history is deleted only after the purged tree was committed; a version is offered for deletion only if ALL its successors were created no later than the cutoff; "
            "only nodes the diff reported as removed are offered and no node of the handle's own tree is; the rows visible through the table are exactly what they were, whatever the outcome (functional postcondition over the tree); the version shown afterwards is the one whose nodes were protected; nodes are deleted before the versions that reference them; genuine defect found (vacuum deleted shared nodes of the current version: table read empty), replayed and fixed",
            "that mast DiffIter/DiffLinks visit every entry/node is an assumed clause (higher-order dependency); crash points are covered as ordering obligations only; known finding: with node_cache_entries > 0 the node cache keeps remembering deleted nodes as stored (empty table after a later vacuum)", "DESIGN §6 C09, §12"),
    "C10": ("reclaiming is all or error: no failed DELETE is swallowed, version objects are deleted only after all their nodes, the protection pass passes a version over only if it is itself offered; cutoff boundaries: row side strictly before the cutoff (call-site assertion in Vacuum), purge test in the RemoveTombstones callback (stamp != 0 and strictly before the cutoff, everything else untouched), version side every successor not after the cutoff",
            "idempotence of a repeated vacuum is not stated; iterator coverage assumed; KNOWN FINDING (3 errdrop obligations in getHistoricRootsAndNodes): a read fault while vacuum enumerates the nodes of a version it reclaims is logged and skipped, vacuum reports success and the nodes stay for good (replayed: 3 of 6 objects leaked after one transient GET error)", "DESIGN §6 C10, §12"),
    "C18": ("node encryption: every slice/array access of encrypt, decrypt and the legacy box path is in bounds for EVERY ciphertext (any length, truncated or not: error, never a panic); the ciphertext is a function of (key, plaintext) only (nonce = blake2b(plaintext||key): unchanged nodes deduplicate); "
            "decrypt inverts encrypt for every plaintext and key as a lemma over the two verified contracts and the assumed seal/open law; the encryptor wraps the node store only (version objects use plain Persist objects); V1NodeEncryptor yields a real encryptor keyed from the whole passphrase for EVERY passphrase and the configured encryptor is the one the node store uses; the legacy box path accepts nothing unless Poly1305 verified exactly this body against exactly this tag (ghost record set by the assumed contract of poly1305.Verify)",
            "confidentiality and authentication are properties of the assumed primitives (trusted/crypto.contracts) and are not decided; readability of legacy-format data is not expressible by a contract within reach: a bounded run on the real code (never counted as proved) stands in and reports a KNOWN FINDING (legacy boxes longer than 32 bytes decrypt to garbage without error)", "DESIGN §6 C18, §12"),
    "C03": ("the per-request protocol obligations the interleaving argument rests on (DESIGN §12.5): a listing is complete (first request without token, every further request continues exactly the truncated page before it, it ends only at a page that is not truncated, every entry of every page is in the result); a commit publishes its version only after a successful flush and retires parents only after publishing; a parent is copied to merged/ BEFORE it is deleted from current/ and the new version is never deleted; "
            "an opener looks for every version it listed in BOTH places, skips a version only when an object is reported missing (never on a transport error) and never when versions were named; genuine defect found (an open racing with a commit showed an empty table), replayed with a request hook and fixed",
            "the property quantifies over all interleavings of k clients: the lift from these obligations to 'every opener sees every version committed before its open' is a pencil argument, not mechanised; liveness ('eventually contained') is not decided; assumes an atomic read-after-write object store and that other clients run the same code", "DESIGN §12.5"),
}

NOT_APPLICABLE = {
    "C19": "quantifies over thread schedules under the race detector; contracts on sequential code have no model of threads (DESIGN §7)",
}

NOT_REACHED = "contracts for this property are not yet built in this round (no other technique substituted)"

def commits():
    try:
        out = subprocess.check_output(["git", "-C", "/repo", "log", "--format=%H %s"], text=True)
        return [l.split()[0] for l in out.splitlines() if l.split(" ", 1)[1].startswith("verif:")]
    except Exception:
        return []

checks = []
na = []
all_ids = [json.loads(l)["id"] for l in open(os.path.join(HERE, "properties.jsonl"))]
for pid in all_ids:
    if pid in props and pid in CLAIMS:
        text, note, ref = CLAIMS[pid]
        p = props[pid]
        bounded = p.get("bounded") or []
        if bounded:
            note += " | bounded stand-ins (never counted as proved): " + "; ".join(bounded)
        checks.append({
            "property_id": pid,
            "quick_cmd": f"./check {pid} quick",
            "thorough_cmd": f"./check {pid} thorough",
            "evidence_file": f"evidence/{pid}.json",
            "replay_cmd_template": "./check --replay {path}",
            "engine": "gowp",
            "level_claimed": {"category": "proof", "text": text, "design_ref": ref},
            "level_note": note,
            "technique": TECH,
        })
    else:
        na.append({"property_id": pid, "reason": NOT_APPLICABLE.get(pid, NOT_REACHED)})

manifest = {
    "version": 1,
    "setup_cmd": "./setup.sh",
    "hooks": {
        "guard": "verif",
        "enable": "-tags verif (the hook files are comment-only contract files zz_verif_contracts.go; the verifier reads them as text)",
        "baseline_off_cmd": "cd /repo && GOFLAGS=-mod=mod GOPROXY=off go test -vet=off -count=1 -timeout 25m ./...",
        "source_commits": commits(),
        "add_only": True,
    },
    "engines": [{
        "name": "gowp",
        "path": "tool/gowp",
        "serves_properties": [c["property_id"] for c in checks],
        "kind_free_text": "self-written deductive verifier for Go: forward symbolic execution of go/ssa per function, cut at loop invariants and callee contracts, field-array heap with frame axioms, SMT back ends z3 4.8.12 / z3 5.1.0 / cvc5 1.0.3",
    }],
    "checks": checks,
    "not_applicable": na,
    "notes": "Contracts live in /repo/**/zz_verif_contracts.go (//go:build verif, comment-only) and /verif/trusted/*.contracts (assumed contracts on dependencies). props.json maps each property to the functions and lemmas whose obligations decide it; known_findings.json lists genuine defects recorded by obligation id.",
}
json.dump(manifest, open(os.path.join(HERE, "MANIFEST.json"), "w"), indent=1)
print("MANIFEST.json:", len(checks), "checks,", len(na), "not applicable")
