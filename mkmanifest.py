#!/usr/bin/env python3
"""Regenerates MANIFEST.json from props.json and the claim table below."""
import json, subprocess, os

HERE = os.path.dirname(os.path.abspath(__file__))
props = json.load(open(os.path.join(HERE, "props.json")))

TECH = "contract-based deductive verification: VCs generated over go/ssa of /repo, discharged by z3/cvc5"

# id -> (claim text, level note, design ref)
CLAIMS = {
    "C01": ("row merge (MergeRows and helpers) verified for all inputs against the documented merge M written as a spec function; M is commutative, idempotent and "
            "invariant-preserving for all rows, associative / absorbing in the proved cases (no delete; no re-insert after delete on fully assigned rows); the general "
            "associativity and absorption laws fail on the real code and are recorded as known findings; kv value join verified",
            "absolute times within +-2^62 ns (precondition); mast DiffIter/Insert and the fold over versions (mergeRoots) are not yet under contract; the generic fold lemma is not mechanised", "DESIGN §6 C01"),
    "C16": ("node codec: marshalProto and unmarshalProto verified element-wise inverse (keys, the four value fields, child links including absent ones) for every node shape, "
            "all type assertions and indices safe; protobuf transport assumed faithful",
            "proto.Marshal/Unmarshal assumed (trusted/proto.contracts); flush-before-publish and immutability of stored objects are not yet under contract", "DESIGN §6 C16"),
    "C20": ("New verified for every argument list: no panic, duplicated/unknown options rejected, numeric options parsed base 0 into the right field, registry changed only on success",
            "strings.SplitN, strconv.ParseInt assumed; UnquoteAll and the columns grammar (combinator parser) are outside the subset; convertSchema and OpenKV are assumed contracts at this point", "DESIGN §6 C20"),
    "C02": ("which columns a statement assigns (valuesToGo / xColumn no-change protocol), the row merge against the documented per-column rule M, the entry-level gate (update = documented kv join) "
            "and the write-time plumbing are verified for all inputs; the xColumn no-change defect was found, replayed at SQL level and fixed",
            "statement triples for Insert/Update/Delete against the summary semantics are not yet under contract; SQLite's vtab protocol assumed", "DESIGN §6 C02"),
    "C04": ("commit ordering proved on every control path: version object PUT only after a successful flush, parents retired only after the version was published, each parent copied to merged/ before it is "
            "deleted from current/, the new version never deleted, a failed commit retires nothing, xCommit issues no storage request",
            "request-level atomic, fail-stop object store; mast flush contract assumed; the lift from these ordering obligations to 'every crash prefix reads as old or new' is argued in DESIGN (uses M-absorb, proved for fully assigned rows only); open-time merge commit and vacuum not yet under contract", "DESIGN §6 C04"),
    "C05": ("BEGIN/COMMIT/ROLLBACK state contracts at both layers: snapshot is an independent clone of the same abstract tree, rollback restores exactly it, a failed commit keeps it, "
            "write-time state machine (fixed for the transaction unless set explicitly, cleared at commit/rollback), connection context invariant",
            "mast.Clone independence assumed; SQLite calls the transaction callbacks in protocol order; statement-level rollback inside a transaction is SQLite's", "DESIGN §6 C05"),
    "C08": ("Go<->protobuf tagging and SQLite<->Go conversions verified inverse on the five storage classes (bitwise for REAL), codec and merge never alter a stored value object; "
            "the empty-TEXT defect of the binding is a known finding",
            "binding accessors/result setters assumed from their source; protobuf transport assumed", "DESIGN §6 C08"),
    "C13": ("effect contracts with ghost PUT/DELETE counters: Commit, Set, Tombstone, xSync and the transaction callbacks issue no PUT/DELETE on a read-only handle and leave the tree unchanged; "
            "moveMergedRoots requires a writable handle at every call site",
            "mutating requests are issued only through the three trusted primitives; Open/OpenKV/Vacuum/DeleteHistoricVersions not yet under contract", "DESIGN §6 C13"),
    "C15": ("connection attribute invariant (context carries exactly deadline and write_time) preserved by ResetContext/Begin/Commit/Rollback; write time read back from the context; "
            "retry idempotence at the row-merge level (M idempotent, commutative)",
            "package context assumed; statement-level idempotence through Insert/Update/Delete not yet under contract", "DESIGN §6 C15"),
    "C17": ("kv value join (LastWriteWins / firstTombstoneWins / Tombstoned) verified against the documented rule for all inputs; "
            "join laws as SMT lemmas; update/Get/Diff glue contracts",
            "TraceHistory and the gob/json root codecs are not decided; mast.Mast Get/Insert assumed (finite-map contract)", "DESIGN §6 C17"),
}

NOT_APPLICABLE = {
    "C19": "quantifies over thread schedules under the race detector; contracts on sequential code have no model of threads (DESIGN §7)",
}

NOT_REACHED = "contracts for this property are not yet built in this round (no other technique substituted)"

def commits():
    try:
        out = subprocess.check_output(["git", "-C", "/repo", "log", "--format=%H %s"], text=True)
        return [l.split()[0] for l in out.splitlines() if l.split(" ", 1)[1].startswith("verif:")]
    except Exception:
        return []

checks = []
na = []
all_ids = [json.loads(l)["id"] for l in open(os.path.join(HERE, "properties.jsonl"))]
for pid in all_ids:
    if pid in props and pid in CLAIMS:
        text, note, ref = CLAIMS[pid]
        p = props[pid]
        bounded = p.get("bounded") or []
        if bounded:
            note += " | bounded stand-ins (never counted as proved): " + "; ".join(bounded)
        checks.append({
            "property_id": pid,
            "quick_cmd": f"./check {pid} quick",
            "thorough_cmd": f"./check {pid} thorough",
            "evidence_file": f"evidence/{pid}.json",
            "replay_cmd_template": "./check --replay {path}",
            "engine": "gowp",
            "level_claimed": {"category": "proof", "text": text, "design_ref": ref},
            "level_note": note,
            "technique": TECH,
        })
    else:
        na.append({"property_id": pid, "reason": NOT_APPLICABLE.get(pid, NOT_REACHED)})

manifest = {
    "version": 1,
    "setup_cmd": "./setup.sh",
    "hooks": {
        "guard": "verif",
        "enable": "-tags verif (the hook files are comment-only contract files zz_verif_contracts.go; the verifier reads them as text)",
        "baseline_off_cmd": "cd /repo && GOFLAGS=-mod=mod GOPROXY=off go test -vet=off -count=1 -timeout 25m ./...",
        "source_commits": commits(),
        "add_only": True,
    },
    "engines": [{
        "name": "gowp",
        "path": "tool/gowp",
        "serves_properties": [c["property_id"] for c in checks],
        "kind_free_text": "self-written deductive verifier for Go: forward symbolic execution of go/ssa per function, cut at loop invariants and callee contracts, field-array heap with frame axioms, SMT back ends z3 4.8.12 / z3 5.1.0 / cvc5 1.0.3",
    }],
    "checks": checks,
    "not_applicable": na,
    "notes": "Contracts live in /repo/**/zz_verif_contracts.go (//go:build verif, comment-only) and /verif/trusted/*.contracts (assumed contracts on dependencies). props.json maps each property to the functions and lemmas whose obligations decide it; known_findings.json lists genuine defects recorded by obligation id.",
}
json.dump(manifest, open(os.path.join(HERE, "MANIFEST.json"), "w"), indent=1)
print("MANIFEST.json:", len(checks), "checks,", len(na), "not applicable")
