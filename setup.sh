#!/bin/bash
# Builds the verifier from files on disk only (offline).
set -e
cd "$(dirname "$0")"
export GOFLAGS=-mod=mod GOPROXY=off
mkdir -p bin evidence replays
(cd tool && go build -o ../bin/gowp ./gowp)
echo "built bin/gowp"
