; Lemma (C07): the INTEGER-vs-REAL comparison that Key.Order is verified to
; implement — cmpIntRealCode(i, r) = cmpFP(float64(i), r), contract
; s3db.(*Key).Order/post@cmp, with float64(i) the IEEE round-to-nearest-even
; conversion Go performs — equals SQLite's comparison of an integer with a
; real (sqlite3IntFloatCompare, vdbeaux.c, the 64-bit double branch), for every
; int64 i and every non-NaN float64 r.
; Expected: unsat (the negation has no model).
(set-logic QF_BVFP)
(declare-const i (_ BitVec 64))
(declare-const r (_ FloatingPoint 11 53))
(assert (not (fp.isNaN r)))
(define-fun fi () (_ FloatingPoint 11 53) ((_ to_fp 11 53) RNE i))
; the code under contract
(define-fun code () (_ BitVec 2) (ite (fp.lt fi r) #b11 (ite (fp.gt fi r) #b01 #b00)))
; SQLite
(define-fun two63 () (_ FloatingPoint 11 53) ((_ to_fp 11 53) RNE 9223372036854775808.0))
(define-fun y () (_ BitVec 64) ((_ fp.to_sbv 64) RTZ r))
(define-fun sqlite () (_ BitVec 2)
  (ite (fp.lt r (fp.neg two63)) #b01
  (ite (fp.geq r two63) #b11
  (ite (bvslt i y) #b11
  (ite (bvsgt i y) #b01
  (ite (fp.lt fi r) #b11
  (ite (fp.gt fi r) #b01 #b00)))))))
(assert (not (= code sqlite)))
(check-sat)
(get-value (i r))
