package main

import (
	"golang.org/x/tools/go/ssa"
	"encoding/json"
	"flag"
	"fmt"
	"go/token"
	"os"
	"sort"
	"strings"
)

func main() {
	if len(os.Args) >= 2 && os.Args[1] == "check" {
		os.Exit(checkMain(os.Args[2:]))
	}
	repo := flag.String("repo", "/repo", "repository root")
	verif := flag.String("verif", "/verif", "verif root")
	funcs := flag.String("funcs", "", "comma separated function keys (pkgpath.Name) or lemma:<name>")
	timeout := flag.Int("timeout", 10000, "per-obligation solver timeout (ms)")
	verbose := flag.Bool("v", false, "print every obligation")
	dumpJSON := flag.Bool("json", false, "JSON output")
	showSites := flag.Bool("sites", false, "list the call sites of the functions (for 'at' clauses)")
	flag.Parse()
	v, err := loadVerifier(*repo, *verif)
	if err != nil {
		fmt.Fprintln(os.Stderr, "load:", err)
		os.Exit(2)
	}
	defer os.RemoveAll(scratch())
	for _, e := range v.db.Errors {
		fmt.Fprintln(os.Stderr, "contract error:", e)
	}
	var keys []string
	if *funcs == "all" {
		for _, k := range v.db.sortedFuncKeys() {
			if !v.db.Funcs[k].Trusted {
				keys = append(keys, k)
			}
		}
		for n := range v.db.Lemmas {
			keys = append(keys, "lemma:"+n)
		}
	} else {
		for _, k := range strings.Split(*funcs, ",") {
			if k = strings.TrimSpace(k); k != "" {
				keys = append(keys, expandKey(k))
			}
		}
	}
	if *showSites {
		for _, k := range keys {
			if fn := v.findFunc(k); fn != nil {
				x := v.newExec(fn, nil, 1000)
				x.findLoops()
				x.siteIDs()
				var ss []string
				for in, sn := range x.sites {
					if iff, ok := in.(*ssa.If); ok {
						pos := iff.Cond.Pos()
						if !pos.IsValid() {
							if u, ok := iff.Cond.(*ssa.UnOp); ok {
								pos = u.X.Pos()
							}
						}
						ss = append(ss, fmt.Sprintf("%s\t%s  (cond %s)", v.prog.Fset.Position(pos), sn, iff.Cond.String()))
						continue
					}
					if strings.HasPrefix(sn, "call:") || strings.HasPrefix(sn, "defer:") || strings.HasPrefix(sn, "mapupdate") || strings.HasPrefix(sn, "if") || strings.HasPrefix(sn, "field:") {
						ss = append(ss, fmt.Sprintf("%s\t%s", v.prog.Fset.Position(in.Pos()), sn))
					}
				}
				for in, sn := range x.siteAlias {
					ss = append(ss, fmt.Sprintf("%s\t%s", v.prog.Fset.Position(in.Pos()), sn))
				}
				for _, li := range x.loops {
					ss = append(ss, fmt.Sprintf("%s\tloop %d", v.prog.Fset.Position(token.Pos(x.headPos(li.head))), li.ordinal))
				}
				sort.Strings(ss)
				fmt.Println("==", k)
				for _, l := range ss {
					fmt.Println("  ", l)
				}
			}
		}
		return
	}
	var reps []*FuncReport
	for _, k := range keys {
		var r *FuncReport
		if strings.HasPrefix(k, "lemma:") {
			r = v.verifyLemma(k[6:], *timeout)
		} else {
			r = v.verifyFunc(k, *timeout, "quick")
		}
		reps = append(reps, r)
		if !*dumpJSON {
			printReport(r, *verbose)
		}
	}
	if *dumpJSON {
		b, _ := json.MarshalIndent(reps, "", " ")
		fmt.Println(string(b))
	}
}

func expandKey(k string) string {
	if strings.HasPrefix(k, "lemma:") || strings.HasPrefix(k, "github.com/") {
		return k
	}
	// shorthand: s3db.X, kv.X, crdt.X (public), icrdt.X (internal), mod.X
	short := map[string]string{"s3db": "github.com/jrhy/s3db", "kv": "github.com/jrhy/s3db/kv", "crdt": "github.com/jrhy/s3db/kv/crdt",
		"icrdt": "github.com/jrhy/s3db/kv/internal/crdt", "mod": "github.com/jrhy/s3db/sqlite", "internal": "github.com/jrhy/s3db/internal",
		"writetime": "github.com/jrhy/s3db/writetime"}
	i := strings.Index(k, ".")
	if i > 0 {
		if p, ok := short[k[:i]]; ok {
			return p + k[i:]
		}
	}
	return k
}

func printReport(r *FuncReport, verbose bool) {
	n, d := 0, 0
	for _, o := range r.Obs {
		n++
		if o.Status == "discharged" {
			d++
		}
	}
	fmt.Printf("== %s: %d/%d discharged, %d paths, %.1fs", r.Func, d, n, r.Paths, r.TimeS)
	if r.Failed != "" {
		fmt.Printf("  ENGINE: %s", r.Failed)
	}
	fmt.Println()
	for _, o := range r.Obs {
		if verbose || o.Status != "discharged" {
			fmt.Printf("   %-10s %s  [%s] %s\n", o.Status, o.ID, o.Solver, o.Desc)
			if o.Status == "refuted" {
				b, _ := json.Marshal(o.Model)
				fmt.Printf("              model: %s\n", string(b))
			}
			if o.Raw != "" {
				fmt.Printf("              raw: %s\n", o.Raw)
			}
		}
	}
	if verbose {
		for _, nn := range r.Notes {
			fmt.Printf("   note: %s\n", nn)
		}
	}
}
