package main

// Top-level universal quantifiers in contract clauses: skolemised when the
// clause is an obligation, instantiated at trigger terms (map keys and slice
// indices the code or the contracts mention) when it is an assumption.

import (
	"go/ast"
	"go/types"

	"golang.org/x/tools/go/ssa"
)

type universal struct {
	vars  []AnyVar
	types []types.Type
	sorts []string
	body  ast.Expr
	env   Env // captured evaluation context (heap snapshots included)
	done  map[string]bool
	gen   func(s *State, chosen []string) string // programmatic body (engine-generated universals)
	alloc string                                 // allocation frontier when the clause was assumed
	more  func(chosen []string) []string         // further trigger terms an instance introduces (e.g. a permutation's image)
}

func (s *State) cloneUniv() []*universal {
	out := make([]*universal, len(s.univ))
	for i, u := range s.univ {
		c := *u
		c.done = make(map[string]bool, len(u.done))
		for k := range u.done {
			c.done[k] = true
		}
		out[i] = &c
	}
	return out
}

// trigger registers a term of the given sort as an instantiation candidate.
func (s *State) trigger(sort, term string) {
	if s.noTrig || term == "" {
		return
	}
	if s.terms == nil {
		s.terms = map[string][]string{}
		s.termSet = map[string]bool{}
	}
	k := sort + "|" + term
	if s.termSet[k] {
		return
	}
	s.termSet[k] = true
	s.terms[sort] = append(s.terms[sort], term)
	for _, u := range s.univ {
		s.instantiate(u)
	}
}

func (s *State) instantiate(u *universal) {
	if s.noTrig {
		return
	}
	// cartesian product over the known terms of each variable's sort
	var rec func(i int, chosen []string)
	rec = func(i int, chosen []string) {
		if i == len(u.vars) {
			key := ""
			for _, c := range chosen {
				key += c + "|"
			}
			if u.done[key] {
				return
			}
			u.done[key] = true
			if u.gen != nil {
				s.noTrig = true
				t := u.gen(s, chosen)
				s.noTrig = false
				s.assume(t)
				if u.more != nil && s.instDepth < 2 {
					s.instDepth++
					for _, nt := range u.more(chosen) {
						s.trigger(u.sorts[0], nt)
					}
					s.instDepth--
				}
				return
			}
			env := u.env
			env.s = s
			vars := make(map[string]Value, len(u.env.vars)+len(u.vars))
			for k, v := range u.env.vars {
				vars[k] = v
			}
			for j, v := range u.vars {
				vars[v.Name] = Value{T: u.types[j], S: chosen[j]}
			}
			env.vars = vars
			s.noTrig = true
			saved := s.alloc
			if u.alloc != "" {
				s.alloc = u.alloc // closure facts about the frozen heap use the frontier of that time
			}
			t := env.evalBool(u.body)
			s.alloc = saved
			s.noTrig = false
			s.assume(t)
			if len(s.pendingTrig) > 0 {
				pt := s.pendingTrig
				s.pendingTrig = nil
				if s.instDepth < 2 {
					s.instDepth++
					for _, p := range pt {
						s.trigger(p[0], p[1])
					}
					s.instDepth--
				}
			}
			return
		}
		terms := append([]string{}, s.terms[u.sorts[i]]...)
		for _, t := range terms {
			rec(i+1, append(chosen, t))
		}
	}
	rec(0, nil)
}

// assumeClause assumes a contract clause in the given environment.
func (env *Env) assumeClause(c Clause) {
	if len(c.Forall) == 0 {
		env.s.assume(env.evalBool(c.Expr))
		return
	}
	u := &universal{vars: c.Forall, body: c.Expr, done: map[string]bool{}, alloc: env.s.alloc}
	for _, v := range c.Forall {
		t := env.resolveTypeStr(v.Type)
		ls := leavesOf(t)
		if len(ls) != 1 {
			env.fail("forall variable %s: type %s is not a single leaf", v.Name, v.Type)
		}
		u.types = append(u.types, t)
		u.sorts = append(u.sorts, ls[0].Sort)
	}
	cp := *env
	// freeze the heaps the clause talks about
	cp.hp = env.hp.clone()
	if env.old != nil {
		cp.old = env.old.clone()
	}
	vars := make(map[string]Value, len(env.vars))
	for k, v := range env.vars {
		vars[k] = v
	}
	cp.vars = vars
	cp.iterSnap = map[ssa.Value]string{}
	for k, it := range env.s.iters {
		cp.iterSnap[k] = it.visited
	}
	u.env = cp
	env.s.univ = append(env.s.univ, u)
	env.s.instantiate(u)
}

// checkTerm evaluates a clause as an obligation: quantified variables become
// fresh constants (which are also trigger terms for assumed universals).
func (env *Env) checkTerm(c Clause) string {
	if len(c.Forall) == 0 {
		return env.evalBool(c.Expr)
	}
	vars := make(map[string]Value, len(env.vars)+len(c.Forall))
	for k, v := range env.vars {
		vars[k] = v
	}
	for _, v := range c.Forall {
		t := env.resolveTypeStr(v.Type)
		val := env.x.freshValue("sk_"+v.Name, t)
		env.s.assumeRanges(val)
		vars[v.Name] = val
		ls := leavesOf(t)
		if len(ls) == 1 {
			env.s.trigger(ls[0].Sort, val.S)
		}
	}
	n := *env
	n.vars = vars
	return n.evalBool(c.Expr)
}
