package main

// Built-in functions of the contract language, spec-function expansion and
// the binding of source-level local names at loop heads.

import (
	"fmt"
	"os"
	"go/ast"
	"go/types"
	"sort"
	"strings"

	"golang.org/x/tools/go/ssa"
)

func (env *Env) callExpr(c *ast.CallExpr) Value {
	// conversions T(x)
	name := ""
	switch f := c.Fun.(type) {
	case *ast.Ident:
		name = f.Name
	case *ast.SelectorExpr:
		// pkg.Type(x) conversion or method-like pseudo call
		if id, ok := f.X.(*ast.Ident); ok {
			if p := env.importedPkgFor(id.Name, f.Sel.Name); p != nil {
				if tn, ok := p.Scope().Lookup(f.Sel.Name).(*types.TypeName); ok && len(c.Args) == 1 {
					return env.coerce(env.eval(c.Args[0]), tn.Type())
				}
			}
		}
		env.fail("unsupported call %s", exprString(c))
	case *ast.ParenExpr, *ast.StarExpr, *ast.ArrayType:
		t := env.resolveType(c.Fun)
		return env.coerce(env.eval(c.Args[0]), t)
	}
	arg := func(i int) Value {
		if i >= len(c.Args) {
			env.fail("%s: missing argument %d", name, i)
		}
		return env.eval(c.Args[i])
	}
	switch name {
	case "old":
		n := *env
		n.hp = env.old
		return n.eval(c.Args[0])
	case "imp":
		return Value{T: tBool, S: imp(env.evalBool(c.Args[0]), env.evalBool(c.Args[1]))}
	case "iff":
		return Value{T: tBool, S: eq(env.evalBool(c.Args[0]), env.evalBool(c.Args[1]))}
	case "ite":
		cnd := env.evalBool(c.Args[0])
		a, b := arg(1), arg(2)
		a, b = env.unify(a, b)
		if isNilVal(a) {
			a = zeroValue(b.T)
		}
		if isNilVal(b) {
			b = zeroValue(a.T)
		}
		fa, fb := flatten(a), flatten(b)
		if len(fa) != len(fb) {
			env.fail("ite branches differ in shape: %s vs %s", typeKey(a.T), typeKey(b.T))
		}
		terms := make([]string, len(fa))
		for i := range fa {
			terms[i] = ite(cnd, fa[i], fb[i])
		}
		return build(a.T, &terms)
	case "len":
		v := arg(0)
		switch kindOf(v.T) {
		case kSlice:
			return Value{T: tInt, S: v.F[2].S}
		case kStr:
			return Value{T: tInt, S: app("str.len", v.S)}
		case kRef:
			return Value{T: tInt, S: env.s.mapLen(env.hp, v)}
		case kArray:
			return Value{T: tInt, S: intLit(v.T.Underlying().(*types.Array).Len())}
		}
		env.fail("len of %s", typeKey(v.T))
	case "has":
		m, k := arg(0), arg(1)
		_, present := env.s.mapLookup(env.hp, m, k.S)
		return Value{T: tBool, S: present}
	case "addr": // addr(x): the address of a local variable that lives in memory (&x in the code)
		id, isID := c.Args[0].(*ast.Ident)
		if !isID {
			env.fail("addr() takes the name of a local variable")
		}
		p, ok := env.cells[id.Name]
		if !ok {
			env.fail("addr(%s): not a variable living in memory at this point", id.Name)
		}
		return p
	case "closureOf": // closureOf(f, "name"): f is (statically) the closure / function literal called name
		v := arg(0)
		lit, isLit := c.Args[1].(*ast.BasicLit)
		if !isLit {
			env.fail("closureOf takes a string literal")
		}
		name := strings.Trim(lit.Value, "\"`")
		if v.Fn != nil && (v.Fn.Name == name || strings.HasSuffix(v.Fn.Name, "."+name)) {
			return Value{T: tBool, S: "true"}
		}
		return Value{T: tBool, S: "false"}
	case "deepEqual": // the model's reflect.DeepEqual on two interface values (uninterpreted; true for identical values)
		a, b := arg(0), arg(1)
		if kindOf(a.T) != kIface || kindOf(b.T) != kIface {
			env.fail("deepEqual takes two interface values")
		}
		env.x.declareFun("deep_equal", []string{sInt, sInt, sInt, sInt}, sBool)
		return Value{T: tBool, S: or(valuesEqual(a, b), deepEqualTerm(a, b))}
	case "isnil":
		return Value{T: tBool, S: nilTest(arg(0))}
	case "nonnil":
		return Value{T: tBool, S: not(nilTest(arg(0)))}
	case "typeis":
		v := arg(0)
		t := env.resolveType(c.Args[1])
		return Value{T: tBool, S: eq(v.F[0].S, env.x.v.tagOf(t))}
	case "fresh":
		v := arg(0)
		r := v.S
		if kindOf(v.T) == kSlice {
			r = v.F[0].S
		}
		return Value{T: tBool, S: app(">=", r, env.allocOld)}
	case "allocated": // existed before the call / at function entry
		v := arg(0)
		r := v.S
		if kindOf(v.T) == kSlice {
			r = v.F[0].S
		}
		return Value{T: tBool, S: app("<", r, env.allocOld)}
	case "ns":
		return Value{T: tInt, S: arg(0).S}
	case "tm":
		return Value{T: env.x.v.timeType(), S: arg(0).S}
	case "int", "int64", "uint", "uint64", "int32", "uint32", "uint8":
		v := arg(0)
		return Value{T: types.Universe.Lookup(name).Type(), S: v.S}
	case "string":
		v := arg(0)
		if kindOf(v.T) == kSlice {
			return Value{T: tString, S: env.x.bytesStr(env.s, env.hp, v)}
		}
		return Value{T: tString, S: v.S}
	case "bytes":
		v := arg(0)
		if pt, ok := v.T.Underlying().(*types.Pointer); ok {
			// pointer to a byte array: the whole array
			if at, ok := pt.Elem().Underlying().(*types.Array); ok && v.LV == nil {
				v = sliceVal(types.NewSlice(at.Elem()), v.S, "0", fmt.Sprintf("%d", at.Len()))
			} else if ok && kindOf(at) == kArray {
				// an array embedded in an object: its value is one array-sorted leaf
				arr := env.s.loadFrom(env.hp, v)
				env.x.declareFun("bytes_str", []string{arrSort(sInt, sInt), sInt, sInt}, sStr)
				n := fmt.Sprintf("%d", at.Len())
				t := app("bytes_str", arr.S, "0", n)
				env.s.assume(eq(app("str.len", t), n))
				return Value{T: tString, S: t}
			}
		}
		return Value{T: tString, S: env.x.bytesStr(env.s, env.hp, v)}
	case "visited":
		vis := env.loopVisited()
		if vis == "" {
			env.fail("visited(): no map iterator in this loop")
		}
		return Value{T: tBool, S: sel(vis, arg(0).S)}
	case "min":
		a, b := arg(0), arg(1)
		return Value{T: a.T, S: ite(app("<=", a.S, b.S), a.S, b.S)}
	case "max":
		a, b := arg(0), arg(1)
		return Value{T: a.T, S: ite(app(">=", a.S, b.S), a.S, b.S)}
	case "unchanged":
		n := *env
		n.hp = env.old
		a, b := env.eval(c.Args[0]), n.eval(c.Args[0])
		return Value{T: tBool, S: valuesEqual(a, b)}
	case "wrap64":
		return Value{T: types.Typ[types.Int64], S: wrapInt(arg(0).S, types.Typ[types.Int64], false)}
	case "sat64": // saturating conversion to int64 (time.Duration arithmetic)
		v := arg(0).S
		lo, hi, _ := intRange(types.Typ[types.Int64])
		return Value{T: types.Typ[types.Int64], S: ite(app(">", v, hi), hi, ite(app("<", v, lo), lo, v))}
	case "dur": // abstract value of a *durationpb.Duration
		return Value{T: types.Typ[types.Int64], S: env.x.durOf(env.s, env.hp, arg(0).S)}
	case "nosuchkey":
		v := arg(0)
		return Value{T: tBool, S: env.x.errNoSuchKey(v)}
	case "fpbits_eq": // bit identity of two float64 (distinguishes -0/+0, equates NaN payload-insensitively)
		a, b := arg(0), arg(1)
		return Value{T: tBool, S: eq(a.S, b.S)}
	case "isnan":
		return Value{T: tBool, S: app("fp.isNaN", arg(0).S)}
	case "fp_of_int": // exact-if-representable rounding, same as the code's conversion
		v := arg(0)
		return Value{T: tFloat, S: env.x.intToFloat(env.s, v.S)}
	case "fp_lt":
		return Value{T: tBool, S: app("fp.lt", arg(0).S, arg(1).S)}
	case "gf": // ghost field of an object: gf(p, "name") — an integer cell attached to p
		pv := arg(0)
		name, ok := c.Args[1].(*ast.BasicLit)
		if !ok {
			env.fail("gf(p, \"name\")")
		}
		key := "H:ghost.$" + strings.Trim(name.Value, "\"")
		env.x.regKey(key, arrSort(sInt, sInt))
		return Value{T: tInt, S: env.s.read(env.hp, key, pv.S)}
	case "gfs", "gff": // string / float64 ghost fields
		pv := arg(0)
		nm := c.Args[1].(*ast.BasicLit)
		sort, gt := sStr, tString
		if name == "gff" {
			sort, gt = sFP, tFloat
		}
		key := "H:ghost." + name + ".$" + strings.Trim(nm.Value, "\"")
		env.x.regKey(key, arrSort(sInt, sort))
		return Value{T: gt, S: env.s.read(env.hp, key, pv.S)}
	case "T": // abstract content of a mast snapshot: ghost map akey -> crdt.Value
		v := arg(0)
		return Value{T: env.x.v.ghostTreeType(), S: v.S}
	case "akey": // abstract identity of a tree key: a function of the tagged contents for *s3db.Key, of the boxed value otherwise
		v := arg(0)
		if kindOf(v.T) != kIface {
			v = env.x.makeIface(env.s, v, types.NewInterfaceType(nil, nil))
		}
		return Value{T: tInt, S: env.x.akeyOf(env.s, env.hp, v)}
	case "akeygo": // abstract key identity of the *Key that NewKey builds from a Go value
		v := arg(0)
		x := env.x
		x.declareFun("akey_sqlite", []string{sInt, sInt, sFP, sStr, sStr}, sInt)
		x.declareFun("akey_generic", []string{sInt, sInt}, sInt)
		tag, box := v.F[0].S, v.F[1].S
		ti64 := x.v.tagOf(types.Typ[types.Int64])
		tf64 := x.v.tagOf(types.Typ[types.Float64])
		tstr := x.v.tagOf(types.Typ[types.String])
		tbl := x.v.tagOf(types.NewSlice(types.Typ[types.Uint8]))
		fv := x.unbox(env.s, box, types.Typ[types.Float64]).S
		sv := x.unbox(env.s, box, types.Typ[types.String]).S
		bv := x.unbox(env.s, box, types.NewSlice(types.Typ[types.Uint8]))
		bs := x.bytesStr(env.s, env.hp, bv)
		z := "(_ +zero 11 53)"
		e := "\"\""
		t := ite(eq(tag, ti64), app("akey_sqlite", "1", box, z, e, e),
			ite(eq(tag, tf64), app("akey_sqlite", "2", "0", fv, e, e),
				ite(eq(tag, tstr), app("akey_sqlite", "3", "0", z, sv, e),
					ite(eq(tag, tbl), app("akey_sqlite", "4", "0", z, e, bs),
						ite(eq(tag, "0"), app("akey_sqlite", "0", "0", z, e, e), app("akey_generic", tag, box))))))
		return Value{T: tInt, S: t}
	case "iface2": // an interface value from its (tag, box) pair
		return ifaceVal(types.NewInterfaceType(nil, nil), arg(0).S, arg(1).S)
	case "iface": // box a value into interface{} (nil stays the nil interface)
		v := arg(0)
		it := types.NewInterfaceType(nil, nil)
		if isNilVal(v) {
			return zeroValue(it)
		}
		return env.x.makeIface(env.s, v, it)
	case "layerkey": // what Key.Layer hands to mast's default layer function: (dyn type tag, payload)
		v := arg(0)
		return v
	}
	if sp, ok := env.x.v.db.Specs[name]; ok {
		return env.expandSpec(sp, c)
	}
	if uf, ok := env.x.v.db.UFuncs[name]; ok {
		return env.applyUF(uf, c)
	}
	// conversion to a named type of the package
	if env.pkg != nil {
		if tn, ok := env.pkg.Scope().Lookup(name).(*types.TypeName); ok && len(c.Args) == 1 {
			return env.coerce(env.eval(c.Args[0]), tn.Type())
		}
	}
	if gt := env.x.v.ghostType(name); gt != nil && len(c.Args) == 1 {
		return env.coerce(env.eval(c.Args[0]), gt)
	}
	env.fail("unknown function %s in contract", name)
	return Value{}
}

func (env *Env) expandSpec(sp *Spec, c *ast.CallExpr) Value {
	if env.depth > 40 {
		env.fail("spec expansion too deep (recursive spec %s?)", sp.Name)
	}
	if len(c.Args) != len(sp.Params) {
		env.fail("spec %s: %d arguments, want %d", sp.Name, len(c.Args), len(sp.Params))
	}
	vars := map[string]Value{}
	tenv := *env
	if p := env.x.v.typesPkg(sp.Pkg); p != nil {
		tenv.pkg = p
	}
	for i, p := range sp.Params {
		v := env.eval(c.Args[i])
		pt := tenv.resolveTypeStr(p.Type)
		if isNilVal(v) {
			v = zeroValue(pt)
		} else {
			v = env.coerce(v, pt)
		}
		vars[p.Name] = v
	}
	// skolem constants stay visible inside specs
	for n, v := range env.x.anyVals {
		if _, ok := vars[n]; !ok {
			vars[n] = v
		}
	}
	sub := env.sub(vars)
	// specs are resolved in the package that declares them
	if p := env.x.v.typesPkg(sp.Pkg); p != nil {
		sub.pkg = p
	}
	r := sub.eval(sp.Body)
	if sp.Result != "" {
		rt := sub.resolveTypeStr(sp.Result)
		r = sub.coerce(r, rt)
	}
	return r
}

// uninterpreted spec-level functions: //@ ufunc name(T1, T2) R
func (env *Env) applyUF(uf *UFunc, c *ast.CallExpr) Value {
	var args []string
	var sorts []string
	for i := range c.Args {
		v := env.eval(c.Args[i])
		for j, t := range flatten(v) {
			args = append(args, t)
			sorts = append(sorts, leavesOf(v.T)[j].Sort)
			// atomic integer arguments are instantiation candidates for universals
			if sorts[len(sorts)-1] == sInt && len(t) < 300 && !isLiteralInt(t) {
				env.s.trigger(sInt, t)
			}
			// string arguments likewise (node / version names)
			if sorts[len(sorts)-1] == sStr && len(t) < 300 && !strings.HasPrefix(t, "\"") {
				env.s.trigger(sStr, t)
			}
		}
	}
	tenv := *env
	if p := env.x.v.typesPkg(uf.Pkg); p != nil {
		tenv.pkg = p
	}
	rt := tenv.resolveTypeStr(uf.Result)
	ls := leavesOf(rt)
	if len(ls) != 1 {
		env.fail("ufunc %s: result must be a single leaf", uf.Name)
	}
	sym := "uf_" + sanitize(uf.Name)
	env.x.declareFun(sym, sorts, ls[0].Sort)
	res := app(sym, args...)
	if uf.Witness && len(res) < 400 {
		// a skolem function: its value is a position / key other universals have to
		// be instantiated at, even when it first appears inside an instance
		if env.s.noTrig {
			env.s.pendingTrig = append(env.s.pendingTrig, [2]string{ls[0].Sort, res})
		} else {
			env.s.trigger(ls[0].Sort, res)
		}
	}
	return Value{T: rt, S: res}
}

func (env *Env) loopVisited() string {
	if env.li == nil {
		return ""
	}
	for _, in := range env.li.head.Instrs {
		if nx, ok := in.(*ssa.Next); ok {
			if env.iterSnap != nil {
				if v, ok := env.iterSnap[nx.Iter]; ok {
					return v
				}
			}
			if it := env.s.iters[nx.Iter]; it != nil {
				return it.visited
			}
		}
	}
	return ""
}

func (env *Env) loopIter() *iterState {
	if env.li == nil {
		return nil
	}
	for _, in := range env.li.head.Instrs {
		if nx, ok := in.(*ssa.Next); ok {
			return env.s.iters[nx.Iter]
		}
	}
	return nil
}

// bindLocals makes source-level local variables visible to loop invariants
// (and postconditions): phis and allocs by their variable name; for names
// that are plain SSA values, the DebugRef information.
func (x *Exec) bindLocals(env *Env, s *State, li *loopInfo) {
	cur := map[string]nameBind{}
	for n, nb := range s.names {
		cur[n] = nb
	}
	// loop-head phis take precedence inside their loop
	if li != nil {
		for _, in := range li.head.Instrs {
			if p, ok := in.(*ssa.Phi); ok && p.Comment != "" {
				if v, ok := s.env[p]; ok {
					cur[p.Comment] = nameBind{v, false}
				}
			}
		}
	}
	names := make([]string, 0, len(cur))
	for n := range cur {
		names = append(names, n)
	}
	sort.Strings(names)
	if os.Getenv("GOWP_NAMES") != "" {
		for _, n := range names {
			fmt.Fprintf(os.Stderr, "name %s = %s cell=%v\n", n, cur[n].v.S, cur[n].cell)
		}
		fmt.Fprintln(os.Stderr, "--")
	}
	for _, n := range names {
		nb := cur[n]
		v := nb.v
		if nb.cell {
			v = x.cellValue(s, nb.v)
			if env.cells == nil {
				env.cells = map[string]Value{}
			}
			env.cells[n] = nb.v
		}
		if _, taken := env.vars[n]; taken {
			if _, isParam := x.params[n]; !isParam {
				continue
			}
			// a local shadowing/reassigning a parameter: keep the parameter's entry value under the
			// plain name; the current value is available as name_cur
			env.vars[n+"_cur"] = v
			continue
		}
		env.vars[n] = v
	}
}

// cellValue: the current contents of a variable living in memory — except for
// composite (struct, array) variables, where the pointer is more useful.
func (x *Exec) cellValue(s *State, p Value) Value {
	et := p.T.Underlying().(*types.Pointer).Elem()
	if _, isStruct := et.Underlying().(*types.Struct); isStruct && kindOf(et) == kStruct {
		return p
	}
	if _, isArr := et.Underlying().(*types.Array); isArr {
		return p
	}
	return s.loadFrom(s.heap, p)
}

func (x *Exec) localValue(s *State, v ssa.Value) Value {
	if a, ok := v.(*ssa.Alloc); ok {
		// a variable living in memory: its current contents — except for
		// composite (struct) variables, where the pointer is more useful
		p := s.env[a]
		et := a.Type().Underlying().(*types.Pointer).Elem()
		if _, isStruct := et.Underlying().(*types.Struct); isStruct && kindOf(et) == kStruct {
			return p
		}
		if _, isArr := et.Underlying().(*types.Array); isArr {
			return p
		}
		return s.loadFrom(s.heap, p)
	}
	if c, ok := v.(*ssa.Const); ok {
		return x.constVal(c)
	}
	return s.env[v]
}
