package main

// Symbolic state: heap (field-as-array), path events, allocation frontier,
// frame axioms instantiated on read.

import (
	"os"
	"runtime/debug"
	"fmt"
	"go/types"
	"regexp"
	"strings"

	"golang.org/x/tools/go/ssa"
)

type havocRec struct {
	newBase string
	oldTerm string
	cond    func(addr string) string // "unchanged at addr" condition
	id      int
	bound   string // allocation frontier right after the havoc: every reference stored in newBase is below it
}

type Heap struct {
	m  map[string]string     // key -> current term
	hv map[string][]havocRec // key -> havoc history
}

func (h *Heap) clone() *Heap {
	n := &Heap{m: make(map[string]string, len(h.m)), hv: make(map[string][]havocRec, len(h.hv))}
	for k, v := range h.m {
		n.m[k] = v
	}
	for k, v := range h.hv {
		n.hv[k] = v[:len(v):len(v)]
	}
	return n
}

type iterState struct {
	mapRef  string
	mapT    *types.Map
	visited string // (Array K Bool)
	isStr   bool
}

type loopCtx struct {
	errAtEntry map[string]bool // errSeen sites recorded before the loop was entered
	measure   string
	hasMeas   bool
	allocAt   string
	heapAt    *Heap
	spec      *LoopSpec
	modAddrs  map[string][]string // explicit loop modifies: key -> addrs
	hasMod    bool
}

type State struct {
	x      *Exec
	heap   *Heap
	env    map[ssa.Value]Value
	alloc  string
	events []event
	inst   map[string]bool
	iters  map[ssa.Value]*iterState
	loops  map[int]*loopCtx // by head block index
	defers []*ssa.Defer
	npath  int
	dead   bool
	depth  int
	errfacts map[string]bool
	univ     []*universal
	terms    map[string][]string
	termSet  map[string]bool
	noTrig   bool
	pendingBound []string
	instDepth int
	guards    []guardAt // branch conditions assumed so far (event index, condition)
	arrPred   *ssa.BasicBlock
	mergedAtStop bool
	// names: the source-level variables as of this point of this path (set when
	// the defining phi / allocation / debug reference is executed)
	names map[string]nameBind
	pendingTrig [][2]string // witness terms met while instantiating (registered afterwards, depth-limited)
	// errSeen: the errors callees reported on this path since the last cut
	// (site -> "that error was nil"); see Exec.errDropped
	errSeen map[string]string
	errVal  map[string][2]string // the error values themselves (tag, box): conditional tolerance
}

// nameBind: the current value of a source variable, or (cell) a pointer to the
// memory cell holding it.
type nameBind struct {
	v    Value
	cell bool
}

func (s *State) setName(n string, v Value, cell bool) {
	if n == "" || n == "_" || v.T == nil {
		return
	}
	if s.names == nil {
		s.names = map[string]nameBind{}
	}
	if os.Getenv("GOWP_NAMES") == n {
		fmt.Fprintf(os.Stderr, "setName %s = %s (%v)\n%s\n", n, v.S, v.T, debug.Stack())
	}
	s.names[n] = nameBind{v, cell}
}

func (s *State) clone() *State {
	n := &State{x: s.x, heap: s.heap.clone(), alloc: s.alloc, npath: s.npath, depth: s.depth}
	n.env = make(map[ssa.Value]Value, len(s.env))
	for k, v := range s.env {
		n.env[k] = v
	}
	n.names = make(map[string]nameBind, len(s.names))
	for k, v := range s.names {
		n.names[k] = v
	}
	n.events = s.events[:len(s.events):len(s.events)]
	n.inst = make(map[string]bool, len(s.inst))
	for k := range s.inst {
		n.inst[k] = true
	}
	n.iters = make(map[ssa.Value]*iterState, len(s.iters))
	for k, v := range s.iters {
		c := *v
		n.iters[k] = &c
	}
	n.loops = make(map[int]*loopCtx, len(s.loops))
	for k, v := range s.loops {
		n.loops[k] = v
	}
	n.defers = s.defers[:len(s.defers):len(s.defers)]
	if s.errSeen != nil {
		n.errSeen = make(map[string]string, len(s.errSeen))
		for k, v := range s.errSeen {
			n.errSeen[k] = v
		}
		n.errVal = make(map[string][2]string, len(s.errVal))
		for k, v := range s.errVal {
			n.errVal[k] = v
		}
	}
	n.univ = s.cloneUniv()
	n.guards = s.guards[:len(s.guards):len(s.guards)]
	if s.terms != nil {
		n.terms = make(map[string][]string, len(s.terms))
		for k, v := range s.terms {
			n.terms[k] = v[:len(v):len(v)]
		}
		n.termSet = make(map[string]bool, len(s.termSet))
		for k := range s.termSet {
			n.termSet[k] = true
		}
	}
	return n
}

func (s *State) assume(t string) {
	if t == "true" {
		return
	}
	s.events = append(s.events, event{kind: evAssume, term: t})
}

func (s *State) check(ob *Oblig, t string) {
	ob.Path = s.npath
	// an obligation the contract declares out of reach ("unchecked <kind@site>"):
	// assumed, and listed as such in the report
	if x := s.x; x != nil {
		con := x.con
		if x.rootCon != nil {
			con = x.rootCon
		}
		if con != nil {
			for _, u := range con.Unchecked {
				if strings.HasSuffix(ob.ID, "/"+u) {
					x.note("ASSUMED by the contract (unchecked): " + ob.ID + " — " + ob.Desc)
					s.assume(t)
					return
				}
			}
		}
	}
	s.events = append(s.events, event{kind: evCheck, term: t, ob: ob})
}

func (s *State) cover(ob *Oblig) {
	ob.Path = s.npath
	s.events = append(s.events, event{kind: evCover, term: "true", ob: ob})
}

var reSan = regexp.MustCompile(`[^A-Za-z0-9_.]`)

func sanitize(s string) string {
	s = strings.ReplaceAll(s, "github.com/jrhy/s3db", "s3db")
	s = strings.ReplaceAll(s, "google.golang.org/protobuf/types/known/", "")
	s = strings.ReplaceAll(s, "github.com/jrhy/", "")
	return reSan.ReplaceAllString(s, "_")
}

// ---------------------------------------------------------------------------
// heap keys

func (x *Exec) heapSort(key string) string {
	if s, ok := x.hsort[key]; ok {
		return s
	}
	panic("heap key without sort: " + key)
}

func (x *Exec) regKey(key, sort string) {
	if old, ok := x.hsort[key]; ok {
		if old != sort {
			panic(fmt.Sprintf("heap key %s: sort %s vs %s", key, old, sort))
		}
		return
	}
	x.hsort[key] = sort
}

func (s *State) heapTerm(hp *Heap, key string) string {
	if t, ok := hp.m[key]; ok {
		return t
	}
	sym := "H0_" + sanitize(key)
	s.x.declare(sym, s.x.heapSort(key))
	// all snapshots share the same initial symbol
	return sym
}

// read returns select(heap[key], addr) (or nested select for 2-level keys)
// and instantiates the frame axioms of every havoc of that key at addr.
func (s *State) read(hp *Heap, key, addr string, inner ...string) string {
	base := s.heapTerm(hp, key)
	for _, r := range hp.hv[key] {
		ik := fmt.Sprintf("%d|%s", r.id, addr)
		if s.inst[ik] {
			continue
		}
		s.inst[ik] = true
		c := r.cond(addr)
		if c != "false" {
			s.assume(imp(c, eq(sel(r.newBase, addr), sel(r.oldTerm, addr))))
		}
	}
	t := sel(base, addr)
	for _, i := range inner {
		t = sel(t, i)
	}
	return t
}

func (s *State) write(key, addr, val string, inner ...string) {
	base := s.heapTerm(s.heap, key)
	if len(inner) == 0 {
		s.heap.m[key] = sto(base, addr, val)
		return
	}
	in := s.read(s.heap, key, addr)
	s.heap.m[key] = sto(base, addr, sto(in, inner[0], val))
}

func (s *State) writeWhole(key, addr, innerArr string) {
	base := s.heapTerm(s.heap, key)
	s.heap.m[key] = sto(base, addr, innerArr)
}

// havocKey replaces heap[key] by a fresh array; unchanged(addr) tells where
// the old contents persist.
func (s *State) havocKey(key string, unchanged func(addr string) string) {
	old := s.heapTerm(s.heap, key)
	nb := s.x.fresh("hv_"+sanitize(key), s.x.heapSort(key))
	s.x.havocCtr++
	s.heap.hv[key] = append(s.heap.hv[key], havocRec{newBase: nb, oldTerm: old, cond: unchanged, id: s.x.havocCtr})
	s.heap.m[key] = nb
	s.pendingBound = append(s.pendingBound, key)
}

// sealHavoc records the allocation frontier valid for the havocs performed
// since the last seal (call after the frontier has been advanced).
func (s *State) sealHavoc() {
	for _, key := range s.pendingBound {
		hv := s.heap.hv[key]
		if n := len(hv); n > 0 && hv[n-1].bound == "" {
			hv = append(hv[:n-1:n-1], hv[n-1])
			hv[n-1].bound = s.alloc
			s.heap.hv[key] = hv
		}
	}
	s.pendingBound = nil
}

// refClosure: references stored in the heap point to allocated objects: for
// the entry heap below alloc0, for a havocked heap below the frontier that
// followed the havoc. Instantiated at the address being read.
func (s *State) refClosure(hp *Heap, key, addr string, inner ...string) {
	ik := "rc|" + key + "|" + addr + "|" + strings.Join(inner, "|")
	if s.inst[ik] {
		return
	}
	s.inst[ik] = true
	one := func(base, bound string) {
		t := sel(base, addr)
		for _, i := range inner {
			t = sel(t, i)
		}
		// only for objects that existed when that heap version was current: cells
		// at later addresses hold what callees put into freshly allocated objects
		s.assume(imp(app("<", addr, bound), and(app("<=", "0", t), app("<", t, bound))))
	}
	sym := "H0_" + sanitize(key)
	s.x.declare(sym, s.x.heapSort(key))
	one(sym, s.x.alloc0)
	for _, r := range hp.hv[key] {
		if r.bound != "" {
			one(r.newBase, r.bound)
		}
	}
}

// scalar heap cells (globals, ghost variables)
func (s *State) readScalar(hp *Heap, key string) string {
	if t, ok := hp.m[key]; ok {
		return t
	}
	sym := "G0_" + sanitize(key)
	s.x.declare(sym, s.x.heapSort(key))
	return sym
}

// ---------------------------------------------------------------------------
// typed access

func objPrefix(t types.Type) string { return "H:" + typeKey(t) }

// cellKeys gives, for a pointer value, the heap key prefix and address terms.
func (s *State) cell(p Value) (prefix, addr string, inner []string, elemT types.Type) {
	pt, ok := p.T.Underlying().(*types.Pointer)
	if !ok {
		panic(fmt.Sprintf("cell: not a pointer: %v", p.T))
	}
	elemT = pt.Elem()
	if p.LV == nil {
		return objPrefix(elemT), p.S, nil, elemT
	}
	if p.LV.Elem {
		return "E:" + typeKey(p.LV.ElemT) + p.LV.Path, p.LV.Base, []string{p.LV.Idx}, elemT
	}
	return objPrefix(p.LV.Root) + p.LV.Path, p.LV.Base, nil, elemT
}

func (s *State) regLeaves(prefix string, t types.Type, twoLevel bool) []leaf {
	ls := leavesOf(t)
	for _, l := range ls {
		sort := arrSort(sInt, l.Sort)
		if twoLevel {
			sort = arrSort(sInt, arrSort(sInt, l.Sort))
		}
		s.x.regKey(prefix+l.Path, sort)
	}
	return ls
}

func (s *State) rangeAssume(l leaf, term string) {
	switch l.K {
	case kInt:
		if l.T != nil {
			if lo, hi, ok := intRange(l.T); ok {
				s.assume(and(app("<=", lo, term), app("<=", term, hi)))
			}
		} else { // slice off/len, iface tag
			s.assume(and(app("<=", "0", term), app("<=", term, "9223372036854775807")))
		}
	case kRef:
		s.assume(and(app("<=", "0", term), app("<", term, s.alloc)))
	}
}

func (s *State) loadFrom(hp *Heap, p Value) Value {
	if p.LV != nil && p.LV.Global != "" {
		t := p.T.Underlying().(*types.Pointer).Elem()
		ls := leavesOf(t)
		terms := make([]string, len(ls))
		for i, l := range ls {
			key := "G:" + p.LV.Global + p.LV.Path + l.Path
			s.x.regKey(key, l.Sort)
			if s.x.constGlobal(p.LV.Global) {
				sym := "G0_" + sanitize(key)
				s.x.declare(sym, l.Sort)
				terms[i] = sym
				if g := s.x.v.db.Globals[p.LV.Global]; g != nil && g.NonNil && (l.K == kRef || l.Path == ".tag" || l.Path == ".arr") {
					s.assume(not(eq(sym, "0")))
				}
				if l.K == kRef {
					s.assume(and(app("<=", "0", sym), app("<", sym, s.x.alloc0)))
				}
			} else {
				terms[i] = s.readScalar(hp, key)
			}
			if hp == s.heap {
				s.rangeAssume(l, terms[i])
			}
		}
		return build(t, &terms)
	}
	if p.LV != nil && p.LV.ArrPtr != nil {
		arr := s.loadFrom(hp, *p.LV.ArrPtr)
		t := p.T.Underlying().(*types.Pointer).Elem()
		e := sel(arr.S, p.LV.Idx)
		if lo, hi, ok := intRange(t); ok && hp == s.heap {
			s.assume(and(app("<=", lo, e), app("<=", e, hi)))
		}
		return Value{T: t, S: e}
	}
	if at, ok := arrayPointee(p); ok && p.LV == nil {
		if kindOf(at) != kArray {
			panic(unsupported("load of whole array of " + typeKey(at.Elem())))
		}
		prefix := "E:" + typeKey(at.Elem())
		s.regLeaves(prefix, at.Elem(), true)
		return Value{T: at, S: s.read(hp, prefix, p.S)}
	}
	prefix, addr, inner, t := s.cell(p)
	ls := s.regLeaves(prefix, t, len(inner) > 0)
	terms := make([]string, len(ls))
	for i, l := range ls {
		terms[i] = s.read(hp, prefix+l.Path, addr, inner...)
		if hp == s.heap {
			s.rangeAssume(l, terms[i])
		}
		if l.K == kRef {
			s.refClosure(hp, prefix+l.Path, addr, inner...)
		}
	}
	if hp == s.heap {
		s.sliceInv(ls, terms)
	}
	return build(t, &terms)
}

func arrayPointee(p Value) (*types.Array, bool) {
	pt, ok := p.T.Underlying().(*types.Pointer)
	if !ok {
		return nil, false
	}
	at, ok := pt.Elem().Underlying().(*types.Array)
	return at, ok
}

func (s *State) load(p Value) Value { return s.loadFrom(s.heap, p) }

func (s *State) store(p Value, v Value) {
	if p.LV != nil && p.LV.Global != "" {
		t := p.T.Underlying().(*types.Pointer).Elem()
		ls := leavesOf(t)
		terms := flatten(v)
		for i, l := range ls {
			key := "G:" + p.LV.Global + p.LV.Path + l.Path
			s.x.regKey(key, l.Sort)
			s.heap.m[key] = terms[i]
		}
		return
	}
	if p.LV != nil && p.LV.ArrPtr != nil {
		arr := s.load(*p.LV.ArrPtr)
		arr.S = sto(arr.S, p.LV.Idx, v.S)
		s.store(*p.LV.ArrPtr, arr)
		return
	}
	if at, ok := arrayPointee(p); ok && p.LV == nil {
		if kindOf(at) != kArray {
			panic(unsupported("store of whole array of " + typeKey(at.Elem())))
		}
		prefix := "E:" + typeKey(at.Elem())
		s.regLeaves(prefix, at.Elem(), true)
		s.writeWhole(prefix, p.S, v.S)
		return
	}
	prefix, addr, inner, t := s.cell(p)
	ls := s.regLeaves(prefix, t, len(inner) > 0)
	terms := flatten(v)
	if len(terms) != len(ls) {
		panic(fmt.Sprintf("store: %d leaves for %v, want %d", len(terms), t, len(ls)))
	}
	for i, l := range ls {
		s.write(prefix+l.Path, addr, terms[i], inner...)
	}
}

// allocObj allocates a fresh object of type t, zero-initialised.
func (s *State) allocRef() string {
	r := s.x.fresh("new", sInt)
	s.assume(eq(r, s.alloc))
	s.x.allocCtr++
	na := s.x.fresh("alloc", sInt)
	s.assume(eq(na, app("+", s.alloc, "1")))
	s.alloc = na
	return r
}

func (s *State) allocObj(t types.Type) Value {
	r := s.allocRef()
	p := Value{T: types.NewPointer(t), S: r}
	if at, ok := t.Underlying().(*types.Array); ok {
		// arrays behind pointers live in the element heaps, like slice backing arrays
		prefix := "E:" + typeKey(at.Elem())
		for _, l := range s.regLeaves(prefix, at.Elem(), true) {
			s.writeWhole(prefix+l.Path, r, "((as const "+arrSort(sInt, l.Sort)+") "+zeroLeaf(l)+")")
		}
		return p
	}
	s.store(p, zeroValue(t))
	return p
}

// maps ----------------------------------------------------------------------

func mapKeySort(m *types.Map) string {
	switch kindOf(m.Key()) {
	case kStr:
		return sStr
	case kBool:
		return sBool
	case kInt, kRef, kTime:
		return sInt
	}
	return "" // unsupported (interface / struct keys)
}

func (s *State) mapKeys(mt *types.Map) (has, ln string, vals []string, ls []leaf) {
	ks := mapKeySort(mt)
	if ks == "" {
		panic(unsupported("map key type " + typeKey(mt.Key())))
	}
	tk := typeKey(mt)
	has = "MH:" + tk
	ln = "ML:" + tk
	s.x.regKey(has, arrSort(sInt, arrSort(ks, sBool)))
	s.x.regKey(ln, arrSort(sInt, sInt))
	ls = leavesOf(mt.Elem())
	for _, l := range ls {
		k := "MV:" + tk + l.Path
		s.x.regKey(k, arrSort(sInt, arrSort(ks, l.Sort)))
		vals = append(vals, k)
	}
	return
}

func (s *State) mapLookup(hp *Heap, m Value, key string) (Value, string) {
	mt := m.T.Underlying().(*types.Map)
	s.trigger(mapKeySort(mt), key)
	has, _, vals, ls := s.mapKeys(mt)
	present := s.read(hp, has, m.S, key)
	terms := make([]string, len(ls))
	for i, l := range ls {
		raw := s.read(hp, vals[i], m.S, key)
		if hp == s.heap {
			s.rangeAssume(l, raw)
		}
		if l.K == kRef {
			s.refClosure(hp, vals[i], m.S, key)
		}
		terms[i] = ite(present, raw, zeroLeaf(l))
	}
	// a nil map has no entries
	s.assume(imp(eq(m.S, "0"), not(present)))
	return build(mt.Elem(), &terms), present
}

func (s *State) mapLen(hp *Heap, m Value) string {
	mt := m.T.Underlying().(*types.Map)
	_, ln, _, _ := s.mapKeys(mt)
	t := s.read(hp, ln, m.S)
	s.assume(app("<=", "0", t))
	s.assume(imp(eq(m.S, "0"), eq(t, "0")))
	return t
}

func (s *State) mapUpdate(m Value, key string, v Value) {
	mt := m.T.Underlying().(*types.Map)
	s.trigger(mapKeySort(mt), key)
	has, ln, vals, ls := s.mapKeys(mt)
	present := s.read(s.heap, has, m.S, key)
	oldLen := s.mapLen(s.heap, m)
	s.write(ln, m.S, ite(present, oldLen, app("+", oldLen, "1")))
	s.write(has, m.S, "true", key)
	terms := flatten(v)
	for i := range ls {
		s.write(vals[i], m.S, terms[i], key)
	}
}

func (s *State) mapDelete(m Value, key string) {
	mt := m.T.Underlying().(*types.Map)
	has, ln, _, _ := s.mapKeys(mt)
	present := s.read(s.heap, has, m.S, key)
	oldLen := s.mapLen(s.heap, m)
	s.write(ln, m.S, ite(present, app("-", oldLen, "1"), oldLen))
	s.write(has, m.S, "false", key)
}

func (s *State) makeMap(t types.Type) Value {
	mt := t.Underlying().(*types.Map)
	r := s.allocRef()
	has, ln, vals, ls := s.mapKeys(mt)
	ks := mapKeySort(mt)
	s.writeWhole(has, r, "((as const "+arrSort(ks, sBool)+") false)")
	s.write(ln, r, "0")
	for i, l := range ls {
		s.writeWhole(vals[i], r, "((as const "+arrSort(ks, l.Sort)+") "+zeroLeaf(l)+")")
	}
	return Value{T: t, S: r}
}

// slices ---------------------------------------------------------------------

func (s *State) elemPtr(sl Value, idx string) Value {
	st := sl.T.Underlying().(*types.Slice)
	s.trigger(sInt, idx)
	return Value{T: types.NewPointer(st.Elem()), S: "0",
		LV: &LVal{Elem: true, Base: sl.F[0].S, Idx: app("+", sl.F[1].S, idx), ElemT: st.Elem()}}
}

func (s *State) makeSlice(t types.Type, ln string) Value {
	st := t.Underlying().(*types.Slice)
	r := s.allocRef()
	prefix := "E:" + typeKey(st.Elem())
	ls := s.regLeaves(prefix, st.Elem(), true)
	for _, l := range ls {
		s.writeWhole(prefix+l.Path, r, "((as const "+arrSort(sInt, l.Sort)+") "+zeroLeaf(l)+")")
	}
	return sliceVal(t, r, "0", ln)
}

type unsupported string

func (u unsupported) Error() string { return "unsupported: " + string(u) }
