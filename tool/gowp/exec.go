package main

// Forward symbolic execution of one function's SSA, cut at loop heads and calls.

import (
	"fmt"
	"os"
	"go/constant"
	"go/token"
	"go/types"
	"math"
	"sort"
	"strings"
	"sync"

	"golang.org/x/tools/go/ssa"
)

type loopInfo struct {
	head    *ssa.BasicBlock
	ordinal int
	body    map[*ssa.BasicBlock]bool
	spec    *LoopSpec
	keys    map[string]bool // heap keys stored in the body (filled lazily on first visit)
}

type modItem struct {
	key  string
	addr string // "" = every address
}

type ModSet struct {
	items []modItem
	all   bool
}

func (m *ModSet) allows(key, addr string) string {
	if m == nil {
		return "false"
	}
	if m.all {
		return "true"
	}
	var ds []string
	for _, it := range m.items {
		if it.key != key {
			continue
		}
		if it.addr == "" {
			return "true"
		}
		ds = append(ds, eq(addr, it.addr))
	}
	return or(ds...)
}

func (m *ModSet) keys() []string {
	seen := map[string]bool{}
	var ks []string
	for _, it := range m.items {
		if !seen[it.key] {
			seen[it.key] = true
			ks = append(ks, it.key)
		}
	}
	sort.Strings(ks)
	return ks
}

type Exec struct {
	siteAlias map[ssa.Instruction]string
	frameUnless string // set by models around a frame check: condition under which nothing is written
	ai *assignInfo
	allocPos map[token.Pos]bool // declaration positions of the variables that live in memory
	v        *Verifier
	fn       *ssa.Function
	con      *Contract
	pkg      *types.Package
	declsMu  sync.Mutex
	decls    map[string]string
	declOrd  []string
	hsort    map[string]string
	freshCtr int
	havocCtr int
	allocCtr int
	freshRef map[string]bool
	loops    map[int]*loopInfo // by head block index
	anyVals  map[string]Value
	params   map[string]Value
	entry    *Heap
	alloc0   string
	mods     *ModSet
	sites    map[ssa.Instruction]string
	npaths   int
	budget   int
	results  []Result
	resMu    sync.Mutex
	wg       sync.WaitGroup
	notes    map[string]bool
	timeout  int
	failed   string // fatal: outside subset etc.
	modelVals  []string
	modelNames []string
	noMerge    bool
	ipdom      map[*ssa.BasicBlock]*ssa.BasicBlock
	ipdomDone  bool
	retCover bool
	atWild   map[string][]Clause // wildcard call-site assertions, expanded per site
	errType  types.Type          // the type error (for conditional tolerance)
	// inlining of small helpers without a contract (call.go inlineCall)
	rootFn      *ssa.Function    // the function under verification while a helper is being executed
	rootCon     *Contract        // its contract
	rootParams  map[string]Value // its parameters (model values)
	inlinePre   string           // prefix of obligation sites inside the helper
	inlineDepth int
	inlineCap   *[]inlineRet // where the helper's Return hands its state and results
}

type inlineRet struct {
	s    *State
	vals []Value
}

func (x *Exec) note(s string) { x.notes[s] = true }

func (x *Exec) declare(sym, sort string) {
	x.declsMu.Lock()
	defer x.declsMu.Unlock()
	if _, ok := x.decls[sym]; ok {
		return
	}
	x.decls[sym] = fmt.Sprintf("(declare-fun %s () %s)", sym, sort)
	x.declOrd = append(x.declOrd, sym)
}

func (x *Exec) declareFun(sym string, args []string, res string) {
	x.declsMu.Lock()
	defer x.declsMu.Unlock()
	if _, ok := x.decls[sym]; ok {
		return
	}
	x.decls[sym] = fmt.Sprintf("(declare-fun %s (%s) %s)", sym, strings.Join(args, " "), res)
	x.declOrd = append(x.declOrd, sym)
}

func (x *Exec) fresh(prefix, sort string) string {
	x.freshCtr++
	sym := fmt.Sprintf("%s_%d", sanitize(prefix), x.freshCtr)
	x.declare(sym, sort)
	return sym
}

func (x *Exec) constGlobal(name string) bool {
	_, ok := x.v.db.Globals[name]
	return ok
}

// freshValue makes an unconstrained symbolic value of type t.
func (x *Exec) freshValue(prefix string, t types.Type) Value {
	ls := leavesOf(t)
	terms := make([]string, len(ls))
	for i, l := range ls {
		terms[i] = x.fresh(prefix+l.Path, l.Sort)
	}
	return build(t, &terms)
}

func (s *State) assumeRanges(v Value) {
	ls := leavesOf(v.T)
	ts := flatten(v)
	for i, l := range ls {
		s.rangeAssume(l, ts[i])
	}
	s.sliceInv(ls, ts)
}

// sliceInv: the invariant of the slice type for symbolic slice values: a slice
// without a backing array has no elements (s == nil implies len(s) == 0).
func (s *State) sliceInv(ls []leaf, ts []string) {
	for i, l := range ls {
		if !strings.HasSuffix(l.Path, ".arr") && l.Path != ".arr" {
			continue
		}
		base := strings.TrimSuffix(l.Path, ".arr")
		for j, m := range ls {
			if m.Path == base+".len" {
				s.assume(imp(eq(ts[i], "0"), eq(ts[j], "0")))
			}
		}
	}
}

// ---------------------------------------------------------------------------

func (x *Exec) findLoops() {
	x.loops = map[int]*loopInfo{}
	var heads []*ssa.BasicBlock
	for _, b := range x.fn.Blocks {
		for _, s := range b.Succs {
			if s.Dominates(b) {
				li := x.loops[s.Index]
				if li == nil {
					li = &loopInfo{head: s, body: map[*ssa.BasicBlock]bool{s: true}}
					x.loops[s.Index] = li
					heads = append(heads, s)
				}
				// natural loop of back edge b->s
				var stack []*ssa.BasicBlock
				if !li.body[b] {
					li.body[b] = true
					stack = append(stack, b)
				}
				for len(stack) > 0 {
					n := stack[len(stack)-1]
					stack = stack[:len(stack)-1]
					for _, p := range n.Preds {
						if !li.body[p] {
							li.body[p] = true
							stack = append(stack, p)
						}
					}
				}
			}
		}
	}
	sort.Slice(heads, func(i, j int) bool { return x.headPos(heads[i]) < x.headPos(heads[j]) })
	for i, h := range heads {
		li := x.loops[h.Index]
		li.ordinal = i + 1
		if x.con != nil {
			li.spec = x.con.Loops[li.ordinal]
		}
	}
}

// headPos orders loops by source position (falls back to block index).
func (x *Exec) headPos(b *ssa.BasicBlock) int {
	best := 0
	for blk := range x.loops[b.Index].body {
		for _, in := range blk.Instrs {
			// phis carry the position of the variable's declaration (for named
			// results: the signature), which says nothing about where the loop is
			if _, isPhi := in.(*ssa.Phi); isPhi {
				continue
			}
			if p := in.Pos(); p.IsValid() {
				if best == 0 || int(p) < best {
					best = int(p)
				}
			}
		}
	}
	if best == 0 {
		return 1<<40 + b.Index
	}
	return best
}

func (x *Exec) siteIDs() {
	x.sites = map[ssa.Instruction]string{}
	cnt := map[string]int{}
	for _, b := range x.fn.Blocks {
		for _, in := range b.Instrs {
			name := ""
			switch i := in.(type) {
			case *ssa.FieldAddr:
				st := i.X.Type().Underlying().(*types.Pointer).Elem().Underlying().(*types.Struct)
				name = "field:" + st.Field(i.Field).Name()
			case *ssa.IndexAddr, *ssa.Index:
				name = "index"
			case *ssa.Slice:
				name = "slice"
			case *ssa.TypeAssert:
				name = "assert:" + shortType(i.AssertedType)
			case *ssa.Panic:
				name = "panic"
			case *ssa.MapUpdate:
				name = "mapupdate"
			case *ssa.Store:
				name = "store"
			case *ssa.UnOp:
				if i.Op == token.MUL {
					name = "load"
				}
			case *ssa.Call:
				name = "call:" + calleeName(i.Common())
			case *ssa.Defer:
				name = "defer:" + calleeName(i.Common())
			case *ssa.BinOp:
				if i.Op == token.QUO || i.Op == token.REM {
					name = "div"
				}
			case *ssa.Return:
				name = "return"
			case *ssa.If:
				name = "if"
			}
			if st, ok := in.(*ssa.Store); ok {
				// stores into a field are also addressable as "store:<field>" (for "at" clauses)
				if fa, ok := st.Addr.(*ssa.FieldAddr); ok {
					stt := fa.X.Type().Underlying().(*types.Pointer).Elem().Underlying().(*types.Struct)
					an := "store:" + stt.Field(fa.Field).Name()
					cnt[an]++
					if cnt[an] > 1 {
						an = fmt.Sprintf("%s#%d", an, cnt[an])
					}
					if x.siteAlias == nil {
						x.siteAlias = map[ssa.Instruction]string{}
					}
					x.siteAlias[in] = an
				}
			}
			if name == "" {
				continue
			}
			cnt[name]++
			if cnt[name] == 1 {
				x.sites[in] = name
			} else {
				x.sites[in] = fmt.Sprintf("%s#%d", name, cnt[name])
			}
		}
	}
}

func shortType(t types.Type) string {
	return types.TypeString(t, func(p *types.Package) string { return p.Name() })
}

func calleeName(c *ssa.CallCommon) string {
	if c.IsInvoke() {
		return shortType(c.Value.Type()) + "." + c.Method.Name()
	}
	if f := c.StaticCallee(); f != nil {
		return funcShort(f)
	}
	if b, ok := c.Value.(*ssa.Builtin); ok {
		return b.Name()
	}
	return "funcvalue"
}

func funcShort(f *ssa.Function) string {
	if f.Pkg != nil {
		return f.Pkg.Pkg.Name() + "." + f.RelString(f.Pkg.Pkg)
	}
	return f.String()
}

func funcKey(f *ssa.Function) string {
	if f.Pkg != nil {
		return f.Pkg.Pkg.Path() + "." + f.RelString(f.Pkg.Pkg)
	}
	if p := f.Package(); p != nil {
		return p.Pkg.Path() + "." + f.RelString(p.Pkg)
	}
	// methods of instantiated / external types
	s := f.String()
	return s
}

// ---------------------------------------------------------------------------

func (x *Exec) ob(kind, site, desc string, in ssa.Instruction) *Oblig {
	nameFn := x.fn
	if x.rootFn != nil {
		nameFn = x.rootFn
		if site == "" {
			site = strings.TrimSuffix(x.inlinePre, ":")
		} else {
			site = x.inlinePre + site
		}
	}
	id := fmt.Sprintf("%s/%s", funcShort(nameFn), kind)
	if site != "" {
		id += "@" + site
	}
	o := &Oblig{ID: id, Func: funcShort(nameFn), Kind: kind, Desc: desc}
	if in != nil && in.Pos().IsValid() {
		o.Pos = x.v.prog.Fset.Position(in.Pos()).String()
	}
	// model values: parameters' leaves
	mparams := x.params
	if x.rootFn != nil {
		mparams = x.rootParams
	}
	for _, n := range paramOrderOf(mparams) {
		v := mparams[n]
		ls := leavesOf(v.T)
		ts := flatten(v)
		for i, l := range ls {
			o.Values = append(o.Values, ts[i])
			o.Names = append(o.Names, n+l.Path)
		}
	}
	for n, v := range x.anyVals {
		ls := leavesOf(v.T)
		ts := flatten(v)
		for i, l := range ls {
			o.Values = append(o.Values, ts[i])
			o.Names = append(o.Names, "any:"+n+l.Path)
		}
	}
	o.Values = append(o.Values, x.modelVals...)
	o.Names = append(o.Names, x.modelNames...)
	return o
}

func (x *Exec) paramOrder() []string { return paramOrderOf(x.params) }

func paramOrderOf(m map[string]Value) []string {
	var ns []string
	for n := range m {
		ns = append(ns, n)
	}
	sort.Strings(ns)
	return ns
}

func (x *Exec) finish(s *State) {
	if s.dead {
		return
	}
	s.dead = true
	sc := newScript()
	sc.events = s.events
	has := false
	for _, e := range s.events {
		if e.kind != evAssume {
			has = true
			break
		}
	}
	if !has {
		return
	}
	x.declsMu.Lock()
	for _, sym := range x.declOrd {
		sc.declare(sym, x.decls[sym])
	}
	x.declsMu.Unlock()
	if d := os.Getenv("GOWP_DUMP"); d != "" {
		var decls []string
		for _, sym := range sc.order {
			decls = append(decls, sc.decls[sym])
		}
		os.MkdirAll(d, 0o755)
		os.WriteFile(fmt.Sprintf("%s/%s_p%d.smt2", d, sanitize(funcShort2(x)), s.npath), []byte(sc.render(decls, -1, true)), 0o644)
	}
	x.wg.Add(1)
	go func() {
		defer x.wg.Done()
		rs := sc.solve(x.timeout)
		x.resMu.Lock()
		x.results = append(x.results, rs...)
		x.resMu.Unlock()
	}()
}

type pathAbort struct{ reason string }

type guardAt struct {
	at int
	c  string
}

// run executes from block b (entered from pred). Paths that reach the block
// stop are returned without executing it (arrPred records where they came
// from); every other path runs to its end (return, panic, loop back edge) and
// is handed to the solver. Branches whose two sides meet again at the
// branch's immediate post-dominator are merged there into one state
// (path conditions become guards), which keeps the number of paths linear in
// straight-line code with many independent tests.
func (x *Exec) run(s *State, b *ssa.BasicBlock, pred *ssa.BasicBlock, stop *ssa.BasicBlock) []*State {
	var arrived []*State
	skipPhis := false
	if s.mergedAtStop && pred == nil {
		// a state merged at this very block: its phis are already in place
		skipPhis = true
		s.mergedAtStop = false
	}
	for {
		if x.failed != "" {
			return arrived
		}
		if stop != nil && b == stop {
			s.arrPred = pred
			return append(arrived, s)
		}
		s.depth++
		if s.depth > 4000 {
			x.failed = "path too long (unbounded unrolling?)"
			return arrived
		}
		// loop head handling
		if li := x.loops[b.Index]; li != nil {
			if pred != nil && li.body[pred] {
				x.loopBack(s, li, pred)
				x.finish(s)
				return arrived
			}
			x.loopEnter(s, li, pred)
		} else if !skipPhis {
			// ordinary phis
			var vals []Value
			var phis []*ssa.Phi
			for _, in := range b.Instrs {
				p, ok := in.(*ssa.Phi)
				if !ok {
					break
				}
				idx := predIndex(b, pred)
				vals = append(vals, x.val(s, p.Edges[idx]))
				phis = append(phis, p)
			}
			for i, p := range phis {
				s.env[p] = vals[i]
				s.setName(p.Comment, vals[i], false)
			}
		}
		skipPhis = false
		var next *ssa.BasicBlock
		for _, in := range b.Instrs {
			if _, ok := in.(*ssa.Phi); ok {
				continue
			}
			switch t := in.(type) {
			case *ssa.If:
				if !x.atSite(s, in) {
					return arrived
				}
				c := x.val(s, t.Cond).S
				if c == "true" {
					next = b.Succs[0]
				} else if c == "false" {
					next = b.Succs[1]
				} else {
					x.npaths++
					if x.npaths > x.budget {
						x.failed = fmt.Sprintf("path budget %d exceeded", x.budget)
						return arrived
					}
					join := x.joinOf(b)
					if join != nil && !x.noMerge {
						base := len(s.events)
						nuniv := len(s.univ)
						s2 := s.clone()
						s2.npath = x.npaths
						s2.assume(not(c))
						s2.guards = append(s2.guards[:len(s2.guards):len(s2.guards)], guardAt{base, not(c)})
						s.assume(c)
						s.guards = append(s.guards[:len(s.guards):len(s.guards)], guardAt{base, c})
						ra := x.run(s, b.Succs[0], b, join)
						rb := x.run(s2, b.Succs[1], b, join)
						all := append(ra, rb...)
						if x.failed != "" || len(all) == 0 {
							return arrived
						}
						var cont []*State
						if m := x.mergeStates(all, base, nuniv, join); m != nil {
							cont = []*State{m}
							// phis of the join block were computed during the merge
							if join == stop {
								m.arrPred = nil
								m.mergedAtStop = true
								return append(arrived, m)
							}
							s = m
							pred, b = nil, join
							skipPhis = true
							goto continueOuter
						} else {
							cont = all
						}
						// no merge: continue each state separately
						for k, st := range cont {
							if k == len(cont)-1 {
								s = st
								pred, b = st.arrPred, join
								if st.mergedAtStop && pred == nil {
									skipPhis = true
									st.mergedAtStop = false
								}
								goto continueOuter
							}
							arrived = append(arrived, x.run(st, join, st.arrPred, stop)...)
						}
					}
					s2 := s.clone()
					s2.npath = x.npaths
					s2.assume(not(c))
					s2.guards = append(s2.guards[:len(s2.guards):len(s2.guards)], guardAt{len(s.events), not(c)})
					s.guards = append(s.guards[:len(s.guards):len(s.guards)], guardAt{len(s.events), c})
					s.assume(c)
					arrived = append(arrived, x.run(s2, b.Succs[1], b, stop)...)
					next = b.Succs[0]
				}
			case *ssa.Jump:
				next = b.Succs[0]
			case *ssa.Return:
				if x.inlineCap != nil {
					// the end of an inlined helper: the caller goes on from this state
					var vals []Value
					for _, r := range t.Results {
						vals = append(vals, x.val(s, r))
					}
					*x.inlineCap = append(*x.inlineCap, inlineRet{s, vals})
					return arrived
				}
				x.doReturn(s, t)
				x.finish(s)
				return arrived
			case *ssa.Panic:
				o := x.ob("panic", x.sites[in], "explicit panic reachable", in)
				s.check(o, "false")
				x.finish(s)
				return arrived
			default:
				if !x.step(s, in) {
					x.finish(s)
					return arrived
				}
			}
			if x.failed != "" {
				return arrived
			}
		}
		if next == nil {
			x.finish(s)
			return arrived
		}
		pred, b = b, next
	continueOuter:
	}
}

func predIndex(b, pred *ssa.BasicBlock) int {
	for i, p := range b.Preds {
		if p == pred {
			return i
		}
	}
	panic("pred not found")
}

// val evaluates an SSA operand.
func (x *Exec) val(s *State, v ssa.Value) Value {
	switch t := v.(type) {
	case *ssa.Const:
		return x.constVal(t)
	case *ssa.Global:
		name := t.Pkg.Pkg.Path() + "." + t.Name()
		return Value{T: t.Type(), S: "0", LV: &LVal{Global: name}}
	case *ssa.Function:
		return Value{T: t.Type(), S: x.funcID(t), Fn: &FnVal{Name: funcKey(t), Fn: t}}
	case *ssa.Builtin:
		return Value{T: t.Type(), S: "0"}
	}
	if r, ok := s.env[v]; ok {
		return r
	}
	panic(unsupported(fmt.Sprintf("value %s (%T) not in environment", v.Name(), v)))
}

func (x *Exec) funcID(f *ssa.Function) string {
	sym := "fn_" + sanitize(funcKey(f))
	x.declare(sym, sInt)
	return sym
}

func fpLit(f float64) string {
	bits := math.Float64bits(f)
	sign := bits >> 63
	exp := (bits >> 52) & 0x7ff
	man := bits & ((1 << 52) - 1)
	return fmt.Sprintf("(fp #b%d #b%011b #b%052b)", sign, exp, man)
}

func (x *Exec) constVal(c *ssa.Const) Value {
	t := c.Type()
	if c.Value == nil {
		return zeroValue(t)
	}
	switch kindOf(t) {
	case kBool:
		if constant.BoolVal(c.Value) {
			return Value{T: t, S: "true"}
		}
		return Value{T: t, S: "false"}
	case kInt:
		return Value{T: t, S: bigLit(constant.ToInt(c.Value).ExactString())}
	case kStr:
		return Value{T: t, S: strLit(constant.StringVal(c.Value))}
	case kFP:
		f, _ := constant.Float64Val(c.Value)
		return Value{T: t, S: fpLit(f)}
	}
	panic(unsupported("constant of type " + typeKey(t)))
}

// ---------------------------------------------------------------------------
// loops

func (x *Exec) loopKeys(li *loopInfo, s *State) map[string]bool {
	if li.keys != nil {
		return li.keys
	}
	ks := map[string]bool{}
	for b := range li.body {
		for _, in := range b.Instrs {
			switch t := in.(type) {
			case *ssa.Store:
				for _, k := range x.staticKeys(t.Addr) {
					ks[k] = true
				}
			case *ssa.MapUpdate:
				mt := t.Map.Type().Underlying().(*types.Map)
				has, ln, vals, _ := s.mapKeys(mt)
				ks[has], ks[ln] = true, true
				for _, v := range vals {
					ks[v] = true
				}
			case ssa.CallInstruction:
				for _, k := range x.calleeModKeys(s, t) {
					ks[k] = true
				}
			}
		}
	}
	li.keys = ks
	return ks
}

// staticKeys: heap keys a store through addr may touch, from types alone.
func (x *Exec) staticKeys(addr ssa.Value) []string {
	var out []string
	pt, ok := addr.Type().Underlying().(*types.Pointer)
	if !ok {
		return nil
	}
	var prefix string
	two := false
	switch a := addr.(type) {
	case *ssa.FieldAddr:
		// walk up to the root pointer
		path := ""
		var cur ssa.Value = a
		for {
			fa, ok := cur.(*ssa.FieldAddr)
			if !ok {
				break
			}
			st := fa.X.Type().Underlying().(*types.Pointer).Elem().Underlying().(*types.Struct)
			path = "." + fieldName(st.Field(fa.Field), fa.Field) + path
			cur = fa.X
		}
		switch r := cur.(type) {
		case *ssa.IndexAddr:
			if sl, ok := r.X.Type().Underlying().(*types.Slice); ok {
				prefix = "E:" + typeKey(sl.Elem()) + path
				two = true
			} else {
				return []string{"*"}
			}
		case *ssa.Global:
			prefix = "G:" + r.Pkg.Pkg.Path() + "." + r.Name() + path
			for _, l := range leavesOf(pt.Elem()) {
				x.regKey(prefix+l.Path, l.Sort)
				out = append(out, prefix+l.Path)
			}
			return out
		default:
			prefix = objPrefix(cur.Type().Underlying().(*types.Pointer).Elem()) + path
		}
	case *ssa.IndexAddr:
		if sl, ok := a.X.Type().Underlying().(*types.Slice); ok {
			prefix = "E:" + typeKey(sl.Elem())
			two = true
		} else {
			// pointer to array: the array cell itself
			return x.staticKeys(a.X)
		}
	case *ssa.Global:
		prefix = "G:" + a.Pkg.Pkg.Path() + "." + a.Name()
		for _, l := range leavesOf(pt.Elem()) {
			x.regKey(prefix+l.Path, l.Sort)
			out = append(out, prefix+l.Path)
		}
		return out
	default:
		prefix = objPrefix(pt.Elem())
	}
	for _, l := range leavesOf(pt.Elem()) {
		sort := arrSort(sInt, l.Sort)
		if two {
			sort = arrSort(sInt, arrSort(sInt, l.Sort))
		}
		x.regKey(prefix+l.Path, sort)
		out = append(out, prefix+l.Path)
	}
	return out
}

func (x *Exec) loopEnter(s *State, li *loopInfo, pred *ssa.BasicBlock) {
	spec := li.spec
	// phi values from the entering edge
	var phis []*ssa.Phi
	for _, in := range li.head.Instrs {
		p, ok := in.(*ssa.Phi)
		if !ok {
			break
		}
		phis = append(phis, p)
	}
	if pred != nil {
		idx := predIndex(li.head, pred)
		vals := make([]Value, len(phis))
		for i, p := range phis {
			vals[i] = x.val(s, p.Edges[idx])
		}
		for i, p := range phis {
			s.env[p] = vals[i]
		}
	}
	if spec == nil {
		spec = &LoopSpec{}
		x.note(fmt.Sprintf("loop %d of %s has no invariant (havoc only)", li.ordinal, funcShort(x.fn)))
	}
	lc := &loopCtx{spec: spec, allocAt: s.alloc}
	// 1. invariants hold on entry
	for i, inv := range spec.Invariants {
		env := x.envFor(s, li)
		t := env.checkTerm(inv)
		o := x.ob("inv-init", fmt.Sprintf("loop%d#%s", li.ordinal, clauseName(inv, i)), inv.Src, nil)
		s.check(o, t)
	}
	// explicit loop modifies evaluated in the pre-loop state
	var lmods *ModSet
	if spec.HasMod {
		lmods = &ModSet{}
		env := x.envFor(s, li)
		for _, c := range spec.Modifies {
			lmods.items = append(lmods.items, env.evalMod(c.Expr)...)
		}
	}
	lc.heapAt = s.heap.clone()
	// 2. havoc
	keys := x.loopKeys(li, s)
	if keys["*"] {
		x.note("loop body writes through an untracked pointer: whole heap havocked")
		s.havocAll()
	} else {
		var ks []string
		for k := range keys {
			ks = append(ks, k)
		}
		sort.Strings(ks)
		allocAt := s.alloc
		for _, k := range ks {
			k := k
			if strings.HasPrefix(k, "G:") || strings.HasPrefix(k, "GH:") {
				s.heap.m[k] = x.fresh("hv_"+k, x.heapSort(k))
				continue
			}
			lm := lmods
			fm := x.mods
			s.havocKey(k, func(addr string) string {
				if lm != nil {
					return and(app("<", addr, allocAt), not(lm.allows(k, addr)))
				}
				// default: whatever existed at function entry and is outside the
				// function's modifies clause is unchanged
				return and(app("<", addr, x.alloc0), not(fm.allows(k, addr)))
			})
		}
	}
	na := x.fresh("alloc", sInt)
	s.assume(app("<=", s.alloc, na))
	s.alloc = na
	s.sealHavoc()
	for _, p := range phis {
		v := x.freshValue("phi_"+p.Comment, p.Type())
		s.env[p] = v
		s.setName(p.Comment, v, false)
		s.assumeRanges(v)
	}
	// iterators whose next is in this loop: havoc visited
	for _, in := range li.head.Instrs {
		if nx, ok := in.(*ssa.Next); ok {
			if it := s.iters[nx.Iter]; it != nil && !it.isStr {
				ks := mapKeySort(it.mapT)
				it.visited = x.fresh("visited", arrSort(ks, sBool))
			}
		}
	}
	// 3. assume invariants
	for _, inv := range spec.Invariants {
		env := x.envFor(s, li)
		env.assumeClause(inv)
	}
	if spec.Decreases != nil {
		env := x.envFor(s, li)
		lc.measure = env.eval(spec.Decreases.Expr).S
		lc.hasMeas = true
	}
	if lmods != nil {
		lc.hasMod = true
		lc.modAddrs = map[string][]string{}
		for _, it := range lmods.items {
			lc.modAddrs[it.key] = append(lc.modAddrs[it.key], it.addr)
		}
	}
	lc.errAtEntry = map[string]bool{}
	for k := range s.errSeen {
		lc.errAtEntry[k] = true
	}
	s.loops[li.head.Index] = lc
}

func clauseName(c Clause, i int) string {
	if c.Label != "" {
		return c.Label
	}
	return fmt.Sprintf("%d", i+1)
}

func (x *Exec) loopBack(s *State, li *loopInfo, pred *ssa.BasicBlock) {
	lc := s.loops[li.head.Index]
	if lc == nil {
		x.failed = "back edge without loop context"
		return
	}
	// the loop goes round again: no error reported in this iteration was swallowed
	if len(s.errSeen) > 0 {
		all := s.errSeen
		mine := map[string]string{}
		for k, v := range all {
			if !lc.errAtEntry[k] {
				mine[k] = v
			}
		}
		s.errSeen = mine
		x.errDropped(s, "true", "the loop goes on", nil)
		s.errSeen = all
	}
	idx := predIndex(li.head, pred)
	var phis []*ssa.Phi
	for _, in := range li.head.Instrs {
		p, ok := in.(*ssa.Phi)
		if !ok {
			break
		}
		phis = append(phis, p)
	}
	vals := make([]Value, len(phis))
	for i, p := range phis {
		vals[i] = x.val(s, p.Edges[idx])
	}
	for i, p := range phis {
		s.env[p] = vals[i]
		s.setName(p.Comment, vals[i], false)
	}
	for i, inv := range lc.spec.Invariants {
		env := x.envFor(s, li)
		t := env.checkTerm(inv)
		o := x.ob("inv-pres", fmt.Sprintf("loop%d#%s", li.ordinal, clauseName(inv, i)), inv.Src, nil)
		s.check(o, t)
	}
	if os.Getenv("GOWP_COVERALL") != "" {
		o := x.ob("cover", fmt.Sprintf("loop%d-back-p%d", li.ordinal, s.npath), "back edge reachable", nil)
		s.cover(o)
	}
	if lc.hasMeas {
		env := x.envFor(s, li)
		m := env.eval(lc.spec.Decreases.Expr).S
		o := x.ob("decreases", fmt.Sprintf("loop%d", li.ordinal), lc.spec.Decreases.Src, nil)
		s.check(o, and(app("<=", "0", lc.measure), app("<", m, lc.measure)))
	}
}

func (s *State) havocAll() {
	s.x.havocCtr++
	ep := s.x.havocCtr
	nh := &Heap{m: map[string]string{}, hv: map[string][]havocRec{}}
	for k := range s.x.hsort {
		if strings.HasPrefix(k, "GH:") { // ghost state is only changed by contracts
			if t, ok := s.heap.m[k]; ok {
				nh.m[k] = t
			}
			continue
		}
		sym := fmt.Sprintf("HA%d_%s", ep, sanitize(k))
		s.x.declare(sym, s.x.heapSort(k))
		nh.m[k] = sym
	}
	s.heap = nh
	na := s.x.fresh("alloc", sInt)
	s.assume(app("<=", s.alloc, na))
	s.alloc = na
}

// ---------------------------------------------------------------------------
// frame

func (x *Exec) frameCheck(s *State, key, addr string, in ssa.Instruction) {
	// explicit loop frames: a write inside a loop with a modifies clause must hit
	// a listed location or an object allocated since the loop was entered
	if in != nil && in.Block() != nil {
		for idx, lc := range s.loops {
			li := x.loops[idx]
			if li == nil || !lc.hasMod || !li.body[in.Block()] {
				continue
			}
			var ds []string
			ds = append(ds, app(">=", addr, lc.allocAt))
			for _, a := range lc.modAddrs[key] {
				if a == "" {
					ds = []string{"true"}
					break
				}
				ds = append(ds, eq(addr, a))
			}
			if x.frameUnless != "" {
				ds = append(ds, x.frameUnless)
			}
			if c := or(ds...); c != "true" {
				o := x.ob("frame", fmt.Sprintf("loop%d#%s", li.ordinal, sanitize(key)), "write to "+key+" outside the loop's modifies clause", in)
				s.check(o, c)
			}
		}
	}
	if x.freshRef[addr] || x.mods.all {
		return
	}
	allowed := or(app(">=", addr, x.alloc0), x.mods.allows(key, addr))
	if x.frameUnless != "" {
		allowed = or(allowed, x.frameUnless) // the write is empty under this condition
	}
	if allowed == "true" {
		return
	}
	o := x.ob("frame", sanitize(key), "write to "+key+" outside the modifies clause", in)
	s.check(o, allowed)
}

func (x *Exec) frameCheckPtr(s *State, p Value, in ssa.Instruction) {
	if p.LV != nil && p.LV.Global != "" {
		t := p.T.Underlying().(*types.Pointer).Elem()
		for _, l := range leavesOf(t) {
			key := "G:" + p.LV.Global + p.LV.Path + l.Path
			if x.mods.all || x.mods.allows(key, "") == "true" {
				continue
			}
			o := x.ob("frame", sanitize(key), "write to global outside the modifies clause", in)
			s.check(o, "false")
		}
		return
	}
	if p.LV != nil && p.LV.ArrPtr != nil {
		x.frameCheckPtr(s, *p.LV.ArrPtr, in)
		return
	}
	prefix, addr, _, t := s.cell(p)
	for _, l := range leavesOf(t) {
		x.frameCheck(s, prefix+l.Path, addr, in)
	}
}

// ---------------------------------------------------------------------------

func (x *Exec) doReturn(s *State, r *ssa.Return) {
	env := x.envFor(s, nil)
	sig := x.fn.Signature
	var results []Value
	for _, v := range r.Results {
		results = append(results, x.val(s, v))
	}
	bindResults(env, sig, results)
	if n := len(results); n > 0 && isErrorType(sig.Results().At(n-1).Type()) && len(results[n-1].F) == 2 {
		x.errDropped(s, eq(results[n-1].F[0].S, "0"), "success is returned", r)
	}
	if x.con != nil {
		for i, c := range x.con.Ensures {
			if c.Local {
				// a clause over the function's locals applies at the returns where
				// those locals exist (an early return before their definition says
				// nothing about them); the registration check notices a clause
				// that is never generated
				// A local that does not exist (yet) at this return is UNCONSTRAINED,
				// not a reason to skip the clause: "success implies <fact about a
				// local>" must not be escaped by returning success before the local
				// is defined. Only a name that is no variable of the function at all
				// leaves the clause out (the registration check notices a clause that
				// is never generated).
				var t string
				ok := false
				for tries := 0; tries < 8 && !ok; tries++ {
					missing := ""
					t, ok = func() (t string, ok bool) {
						defer func() {
							if r := recover(); r != nil {
								if e, isSpec := r.(specErr); isSpec && strings.HasPrefix(string(e), "unknown identifier") {
									missing = strings.TrimSpace(strings.TrimPrefix(string(e), "unknown identifier"))
									ok = false
									return
								}
								panic(r)
							}
						}()
						return env.checkTerm(c), true
					}()
					if ok || missing == "" {
						break
					}
					name := strings.TrimSuffix(missing, "_local")
					lt := x.localType(name)
					if lt == nil {
						break
					}
					fv := x.freshValue("unbound_"+name, lt)
					s.assumeRanges(fv)
					env.vars[missing] = fv
				}
				if !ok {
					continue
				}
				o := x.ob("post", clauseName(c, i), c.Src, r)
				s.check(o, t)
				continue
			}
			t := env.checkTerm(c)
			o := x.ob("post", clauseName(c, i), c.Src, r)
			s.check(o, t)
		}
	}
	if x.retCover {
		o := x.ob("cover", x.sites[r], "return reachable", r)
		s.cover(o)
	}
}

func bindResults(env *Env, sig *types.Signature, results []Value) {
	res := sig.Results()
	for i, v := range results {
		env.vars[fmt.Sprintf("result%d", i)] = v
		if i < res.Len() && res.At(i).Name() != "" && res.At(i).Name() != "_" {
			env.vars[res.At(i).Name()] = v
		}
	}
	if len(results) >= 1 {
		env.vars["result"] = results[0]
	}
	if n := len(results); n >= 1 {
		if isErrorType(res.At(n - 1).Type()) {
			// the conventional name err denotes the error result unless a parameter is called err
			isParam := false
			if env.x != nil {
				_, isParam = env.x.params["err"]
				if env.x.fn == nil || env.inCallee {
					_, isParam = env.vars["err"]
				}
			}
			if !isParam {
				// a local variable of that name stays reachable as err_local
				if lv, has := env.vars["err"]; has && !env.inCallee {
					env.vars["err_local"] = lv
				}
				env.vars["err"] = results[n-1]
			}
		}
	}
}

func isErrorType(t types.Type) bool {
	n, ok := t.(*types.Named)
	return ok && n.Obj().Pkg() == nil && n.Obj().Name() == "error"
}

func funcShort2(x *Exec) string {
	if x.fn != nil {
		return funcShort(x.fn)
	}
	return x.con.Name
}

// localType: the type of a local variable of the function under verification,
// by name (the first definition in source order), or nil.
func (x *Exec) localType(name string) types.Type {
	if x.fn == nil || x.fn.Pkg == nil || x.fn.Syntax() == nil {
		return nil
	}
	info := x.v.infos[x.fn.Pkg.Pkg.Path()]
	if info == nil {
		return nil
	}
	lo, hi := x.fn.Syntax().Pos(), x.fn.Syntax().End()
	var best types.Object
	for id, o := range info.Defs {
		if o == nil || id.Name != name || id.Pos() < lo || id.Pos() > hi {
			continue
		}
		if _, isVar := o.(*types.Var); !isVar {
			continue
		}
		if best == nil || o.Pos() < best.Pos() {
			best = o
		}
	}
	if best == nil {
		return nil
	}
	return best.Type()
}
