package main

// Evaluation of contract expressions (Go expression syntax + built-ins) over
// the symbolic state.

import (
	"fmt"
	"go/ast"

	"golang.org/x/tools/go/ssa"
	"go/constant"
	"go/token"
	"go/types"
	"strconv"
	"strings"
)

type Env struct {
	x        *Exec
	s        *State
	hp       *Heap // heap read by plain expressions
	old      *Heap // heap read under old(...)
	allocOld string
	vars     map[string]Value
	pkg      *types.Package
	li       *loopInfo
	depth    int
	iterSnap map[ssa.Value]string // frozen iterator "visited" sets (clauses instantiated later)
	inCallee bool                 // evaluating a callee's contract at a call site (vars = callee parameters)
	cells    map[string]Value     // local variables living in memory: name -> pointer to the cell (addr(name))
}

type specErr string

func (e specErr) Error() string { return string(e) }

func (x *Exec) envFor(s *State, li *loopInfo) *Env {
	env := &Env{x: x, s: s, hp: s.heap, old: x.entry, allocOld: x.alloc0, vars: map[string]Value{}, pkg: x.pkg, li: li}
	for n, v := range x.params {
		env.vars[n] = v
	}
	for n, v := range x.anyVals {
		env.vars[n] = v
	}
	// source-level locals: phis and allocs by their comment, latest definition wins
	for v, val := range s.env {
		switch t := v.(type) {
		case interface{ Name() string }:
			_ = t
		}
		_ = val
	}
	x.bindLocals(env, s, li)
	return env
}

func (env *Env) sub(vars map[string]Value) *Env {
	n := *env
	n.vars = vars
	n.depth = env.depth + 1
	return &n
}

func (env *Env) withHeap(hp *Heap) *Env {
	n := *env
	n.hp = hp
	return &n
}

func (env *Env) fail(format string, a ...interface{}) {
	panic(specErr(fmt.Sprintf(format, a...)))
}

func (env *Env) evalBool(e ast.Expr) string {
	v := env.eval(e)
	if kindOf(v.T) != kBool {
		env.fail("expected boolean, got %s in %s", typeKey(v.T), exprString(e))
	}
	return v.S
}

func exprString(e ast.Expr) string { return types.ExprString(e) }

var tBool = types.Typ[types.Bool]
var tInt = types.Typ[types.Int]
var tString = types.Typ[types.String]
var tFloat = types.Typ[types.Float64]

func (env *Env) eval(e ast.Expr) Value {
	switch t := e.(type) {
	case *ast.ParenExpr:
		return env.eval(t.X)
	case *ast.BasicLit:
		switch t.Kind {
		case token.INT:
			c := constant.MakeFromLiteral(t.Value, token.INT, 0)
			return Value{T: tInt, S: bigLit(c.ExactString())}
		case token.STRING:
			s, _ := strconv.Unquote(t.Value)
			return Value{T: tString, S: strLit(s)}
		case token.FLOAT:
			f, _ := strconv.ParseFloat(t.Value, 64)
			return Value{T: tFloat, S: fpLit(f)}
		}
	case *ast.Ident:
		return env.ident(t)
	case *ast.UnaryExpr:
		switch t.Op {
		case token.NOT:
			return Value{T: tBool, S: not(env.evalBool(t.X))}
		case token.SUB:
			v := env.eval(t.X)
			if kindOf(v.T) == kFP {
				return Value{T: v.T, S: app("fp.neg", v.S)}
			}
			return Value{T: v.T, S: app("-", v.S)}
		case token.AND:
			return env.evalAddr(t.X)
		}
	case *ast.BinaryExpr:
		return env.binary(t)
	case *ast.StarExpr:
		p := env.eval(t.X)
		return env.s.loadFrom(env.hp, p)
	case *ast.SelectorExpr:
		return env.selector(t)
	case *ast.IndexExpr:
		xv := env.eval(t.X)
		switch kindOf(xv.T) {
		case kRef:
			if _, ok := xv.T.Underlying().(*types.Map); ok {
				k := env.eval(t.Index)
				v, _ := env.s.mapLookup(env.hp, xv, k.S)
				return v
			}
		case kSlice:
			i := env.eval(t.Index)
			return env.s.loadFrom(env.hp, env.s.elemPtr(xv, i.S))
		case kStr:
			i := env.eval(t.Index)
			return Value{T: types.Typ[types.Uint8], S: app("str.to_code", app("str.at", xv.S, i.S))}
		case kArray:
			i := env.eval(t.Index)
			return Value{T: xv.T.Underlying().(*types.Array).Elem(), S: sel(xv.S, i.S)}
		}
		env.fail("cannot index %s", typeKey(xv.T))
	case *ast.SliceExpr:
		xv := env.eval(t.X)
		lo := "0"
		if t.Low != nil {
			lo = env.eval(t.Low).S
		}
		switch kindOf(xv.T) {
		case kStr:
			hi := app("str.len", xv.S)
			if t.High != nil {
				hi = env.eval(t.High).S
			}
			return Value{T: xv.T, S: app("str.substr", xv.S, lo, app("-", hi, lo))}
		case kSlice:
			hi := xv.F[2].S
			if t.High != nil {
				hi = env.eval(t.High).S
			}
			return sliceVal(xv.T, xv.F[0].S, app("+", xv.F[1].S, lo), app("-", hi, lo))
		}
	case *ast.CallExpr:
		return env.callExpr(t)
	case *ast.TypeAssertExpr:
		xv := env.eval(t.X)
		at := env.resolveType(t.Type)
		if kindOf(xv.T) != kIface {
			env.fail("type assertion on non-interface")
		}
		if kindOf(at) == kIface {
			return Value{T: at, F: xv.F}
		}
		env.x.assumeBoxed(env.s, xv.F[1].S, at, eq(xv.F[0].S, env.x.v.tagOf(at)))
		return env.x.unbox(env.s, xv.F[1].S, at)
	case *ast.CompositeLit:
		ct := env.resolveType(t.Type)
		st, ok := ct.Underlying().(*types.Struct)
		if !ok {
			env.fail("composite literal of %s", typeKey(ct))
		}
		v := zeroValue(ct)
		for i, el := range t.Elts {
			if kv, ok := el.(*ast.KeyValueExpr); ok {
				name := kv.Key.(*ast.Ident).Name
				found := false
				for j := 0; j < st.NumFields(); j++ {
					if st.Field(j).Name() == name {
						v.F[j] = env.coerce(env.eval(kv.Value), st.Field(j).Type())
						found = true
					}
				}
				if !found {
					env.fail("no field %s in %s", name, typeKey(ct))
				}
			} else {
				v.F[i] = env.coerce(env.eval(el), st.Field(i).Type())
			}
		}
		return v
	}
	env.fail("unsupported expression %s (%T)", exprString(e), e)
	return Value{}
}

func (env *Env) coerce(v Value, to types.Type) Value {
	if kindOf(to) == kFP && kindOf(v.T) == kInt && isLiteralInt(v.S) {
		f, _ := strconv.ParseFloat(strings.Trim(strings.ReplaceAll(strings.ReplaceAll(v.S, "(- ", "-"), ")", ""), " "), 64)
		return Value{T: to, S: fpLit(f)}
	}
	if kindOf(to) == kIface && kindOf(v.T) != kIface {
		return env.x.makeIface(env.s, v, to)
	}
	if len(flatten(v)) == len(leavesOf(to)) {
		ts := flatten(v)
		r := build(to, &ts)
		r.LV = v.LV
		r.Fn = v.Fn
		return r
	}
	return v
}

func isLiteralInt(s string) bool {
	if strings.HasPrefix(s, "(- ") {
		s = s[3 : len(s)-1]
	}
	if s == "" {
		return false
	}
	for _, c := range s {
		if c < '0' || c > '9' {
			return false
		}
	}
	return true
}

func (env *Env) ident(id *ast.Ident) Value {
	switch id.Name {
	case "true":
		return Value{T: tBool, S: "true"}
	case "false":
		return Value{T: tBool, S: "false"}
	case "nil":
		return Value{T: types.Typ[types.UntypedNil], S: "0"}
	}
	if v, ok := env.vars[id.Name]; ok {
		return v
	}
	if g, ok := env.x.v.db.Ghosts[id.Name]; ok {
		gt := env.resolveTypeStr(g.Type)
		ls := leavesOf(gt)
		terms := make([]string, len(ls))
		for i, l := range ls {
			key := "GH:" + id.Name + l.Path
			env.x.regKey(key, l.Sort)
			terms[i] = env.s.readScalar(env.hp, key)
		}
		return build(gt, &terms)
	}
	if env.pkg != nil {
		if obj := env.pkg.Scope().Lookup(id.Name); obj != nil {
			return env.object(obj)
		}
	}
	env.fail("unknown identifier %s", id.Name)
	return Value{}
}

func (env *Env) object(obj types.Object) Value {
	switch o := obj.(type) {
	case *types.Const:
		t := o.Type()
		switch kindOf(t) {
		case kBool:
			if constant.BoolVal(o.Val()) {
				return Value{T: t, S: "true"}
			}
			return Value{T: t, S: "false"}
		case kInt:
			return Value{T: t, S: bigLit(constant.ToInt(o.Val()).ExactString())}
		case kStr:
			return Value{T: t, S: strLit(constant.StringVal(o.Val()))}
		case kFP:
			f, _ := constant.Float64Val(o.Val())
			return Value{T: t, S: fpLit(f)}
		}
	case *types.Var:
		name := o.Pkg().Path() + "." + o.Name()
		p := Value{T: types.NewPointer(o.Type()), S: "0", LV: &LVal{Global: name}}
		return env.s.loadFrom(env.hp, p)
	}
	env.fail("cannot use %s in a contract", obj.Name())
	return Value{}
}

// importedPkgFor: like importedPkg, but when several imports share the name
// (an alias hides one of them) picks the one that declares member.
func (env *Env) importedPkgFor(name, member string) *types.Package {
	if env.pkg != nil {
		var first *types.Package
		for _, p := range env.pkg.Imports() {
			if p.Name() == name {
				if first == nil {
					first = p
				}
				if p.Scope().Lookup(member) != nil {
					return p
				}
			}
		}
		if first != nil {
			return first
		}
	}
	return env.importedPkg(name)
}

func (env *Env) importedPkg(name string) *types.Package {
	if env.pkg != nil {
		for _, p := range env.pkg.Imports() {
			if p.Name() == name {
				return p
			}
		}
	}
	// well-known aliases used in /repo
	alias := map[string]string{"v1proto": "github.com/jrhy/s3db/proto/v1", "crdtpub": "github.com/jrhy/s3db/kv/crdt",
		"s3Persist": "github.com/jrhy/mast/persist/s3", "sqlTypes": "github.com/jrhy/s3db/sql/types"}
	if path, ok := alias[name]; ok {
		if p := env.x.v.typesPkg(path); p != nil {
			return p
		}
	}
	if p := env.x.v.pkgByName(name); p != nil {
		return p
	}
	return nil
}

func (env *Env) selector(t *ast.SelectorExpr) Value {
	if id, ok := t.X.(*ast.Ident); ok {
		if _, isVar := env.vars[id.Name]; !isVar {
			if p := env.importedPkgFor(id.Name, t.Sel.Name); p != nil {
				obj := p.Scope().Lookup(t.Sel.Name)
				if obj == nil {
					env.fail("%s.%s not found", id.Name, t.Sel.Name)
				}
				return env.object(obj)
			}
		}
	}
	xv := env.eval(t.X)
	return env.field(xv, t.Sel.Name)
}

func (env *Env) field(xv Value, name string) Value {
	// pseudo-fields
	switch kindOf(xv.T) {
	case kSlice:
		switch name {
		case "len":
			return Value{T: tInt, S: xv.F[2].S}
		case "arr":
			return Value{T: tInt, S: xv.F[0].S}
		case "off":
			return Value{T: tInt, S: xv.F[1].S}
		}
	case kIface:
		switch name {
		case "tag":
			return Value{T: tInt, S: xv.F[0].S}
		case "box":
			return Value{T: tInt, S: xv.F[1].S}
		}
	}
	obj, index, _ := types.LookupFieldOrMethod(xv.T, true, env.pkg, name)
	if obj == nil {
		// unexported field of another package: search manually
		index = findField(xv.T, name)
		if index == nil {
			env.fail("no field %s in %s", name, typeKey(xv.T))
		}
	} else if _, isVar := obj.(*types.Var); !isVar {
		env.fail("%s is not a field of %s", name, typeKey(xv.T))
	}
	cur := xv
	for _, i := range index {
		if pt, ok := cur.T.Underlying().(*types.Pointer); ok {
			st := pt.Elem().Underlying().(*types.Struct)
			f := st.Field(i)
			fp := Value{T: types.NewPointer(f.Type()), S: "0"}
			if cur.LV == nil {
				fp.LV = &LVal{Root: pt.Elem(), Base: cur.S, Path: "." + fieldName(f, i)}
			} else {
				lv := *cur.LV
				lv.Path += "." + fieldName(f, i)
				fp.LV = &lv
			}
			cur = env.s.loadFrom(env.hp, fp)
			continue
		}
		st, ok := cur.T.Underlying().(*types.Struct)
		if !ok {
			env.fail("field access on %s", typeKey(cur.T))
		}
		ft := st.Field(i).Type()
		cur = cur.F[i]
		if cur.T == nil {
			cur.T = ft
		}
	}
	return cur
}

func findField(t types.Type, name string) []int {
	if p, ok := t.Underlying().(*types.Pointer); ok {
		t = p.Elem()
	}
	st, ok := t.Underlying().(*types.Struct)
	if !ok {
		return nil
	}
	for i := 0; i < st.NumFields(); i++ {
		if st.Field(i).Name() == name {
			return []int{i}
		}
	}
	for i := 0; i < st.NumFields(); i++ {
		if st.Field(i).Embedded() {
			if sub := findField(st.Field(i).Type(), name); sub != nil {
				return append([]int{i}, sub...)
			}
		}
	}
	return nil
}

// evalAddr yields a pointer (possibly interior) to the designated location.
func (env *Env) evalAddr(e ast.Expr) Value {
	switch t := e.(type) {
	case *ast.ParenExpr:
		return env.evalAddr(t.X)
	case *ast.StarExpr:
		return env.eval(t.X)
	case *ast.Ident:
		if env.pkg != nil {
			if _, shadow := env.vars[t.Name]; !shadow {
				if obj, ok := env.pkg.Scope().Lookup(t.Name).(*types.Var); ok {
					return Value{T: types.NewPointer(obj.Type()), S: "0", LV: &LVal{Global: obj.Pkg().Path() + "." + obj.Name()}}
				}
			}
		}
	case *ast.SelectorExpr:
		if id, ok := t.X.(*ast.Ident); ok {
			if _, isVar := env.vars[id.Name]; !isVar {
				if p := env.importedPkg(id.Name); p != nil {
					if obj, ok := p.Scope().Lookup(t.Sel.Name).(*types.Var); ok {
						return Value{T: types.NewPointer(obj.Type()), S: "0", LV: &LVal{Global: obj.Pkg().Path() + "." + obj.Name()}}
					}
				}
			}
		}
		var base Value
		xv := env.eval(t.X)
		if _, ok := xv.T.Underlying().(*types.Pointer); ok {
			base = xv
		} else {
			base = env.evalAddr(t.X)
		}
		index := findFieldPath(base.T.Underlying().(*types.Pointer).Elem(), t.Sel.Name, env.pkg)
		if index == nil {
			env.fail("no field %s", t.Sel.Name)
		}
		cur := base
		for n, i := range index {
			pt := cur.T.Underlying().(*types.Pointer)
			st := pt.Elem().Underlying().(*types.Struct)
			f := st.Field(i)
			fp := Value{T: types.NewPointer(f.Type()), S: "0"}
			if cur.LV == nil {
				fp.LV = &LVal{Root: pt.Elem(), Base: cur.S, Path: "." + fieldName(f, i)}
			} else {
				lv := *cur.LV
				lv.Path += "." + fieldName(f, i)
				fp.LV = &lv
			}
			cur = fp
			if n < len(index)-1 {
				if _, isPtr := f.Type().Underlying().(*types.Pointer); isPtr {
					cur = env.s.loadFrom(env.hp, fp)
				}
			}
		}
		return cur
	case *ast.IndexExpr:
		xv := env.eval(t.X)
		if kindOf(xv.T) == kSlice {
			return env.s.elemPtr(xv, env.eval(t.Index).S)
		}
	}
	env.fail("cannot take the address of %s", exprString(e))
	return Value{}
}

func findFieldPath(t types.Type, name string, pkg *types.Package) []int {
	obj, index, _ := types.LookupFieldOrMethod(t, true, pkg, name)
	if _, ok := obj.(*types.Var); ok {
		return index
	}
	return findField(t, name)
}

// evalMod turns a modifies item into heap keys + addresses.
func (env *Env) evalMod(e ast.Expr) []modItem {
	if id, ok := e.(*ast.Ident); ok {
		if g, ok := env.x.v.db.Ghosts[id.Name]; ok {
			gt := env.resolveTypeStr(g.Type)
			var out []modItem
			for _, l := range leavesOf(gt) {
				key := "GH:" + id.Name + l.Path
				env.x.regKey(key, l.Sort)
				out = append(out, modItem{key, ""})
			}
			return out
		}
	}
	if c, ok := e.(*ast.CallExpr); ok {
		if id, ok := c.Fun.(*ast.Ident); ok && id.Name == "gf" {
			pv := env.eval(c.Args[0])
			name := c.Args[1].(*ast.BasicLit)
			key := "H:ghost.$" + strings.Trim(name.Value, "\"")
			env.x.regKey(key, arrSort(sInt, sInt))
			return []modItem{{key, pv.S}}
		}
		if id, ok := c.Fun.(*ast.Ident); ok && (id.Name == "gfs" || id.Name == "gff") {
			pv := env.eval(c.Args[0])
			nm := c.Args[1].(*ast.BasicLit)
			sort := sStr
			if id.Name == "gff" {
				sort = sFP
			}
			key := "H:ghost." + id.Name + ".$" + strings.Trim(nm.Value, "\"")
			env.x.regKey(key, arrSort(sInt, sort))
			return []modItem{{key, pv.S}}
		}
		if id, ok := c.Fun.(*ast.Ident); ok && id.Name == "contents" {
			v := env.eval(c.Args[0])
			switch kindOf(v.T) {
			case kSlice:
				st := v.T.Underlying().(*types.Slice)
				prefix := "E:" + typeKey(st.Elem())
				var out []modItem
				for _, l := range env.s.regLeaves(prefix, st.Elem(), true) {
					out = append(out, modItem{prefix + l.Path, v.F[0].S})
				}
				return out
			case kRef:
				if mt, ok := v.T.Underlying().(*types.Map); ok {
					has, ln, vals, _ := env.s.mapKeys(mt)
					out := []modItem{{has, v.S}, {ln, v.S}}
					for _, k := range vals {
						out = append(out, modItem{k, v.S})
					}
					return out
				}
			}
			env.fail("contents() of %s", typeKey(v.T))
		}
	}
	p := env.evalAddr(e)
	if p.LV != nil && p.LV.Global != "" {
		t := p.T.Underlying().(*types.Pointer).Elem()
		var out []modItem
		for _, l := range leavesOf(t) {
			key := "G:" + p.LV.Global + p.LV.Path + l.Path
			env.x.regKey(key, l.Sort)
			out = append(out, modItem{key, ""})
		}
		return out
	}
	prefix, addr, inner, t := env.s.cell(p)
	var out []modItem
	for _, l := range env.s.regLeaves(prefix, t, len(inner) > 0) {
		out = append(out, modItem{prefix + l.Path, addr})
	}
	return out
}

func (env *Env) binary(t *ast.BinaryExpr) Value {
	switch t.Op {
	case token.LAND:
		return Value{T: tBool, S: and(env.evalBool(t.X), env.evalBool(t.Y))}
	case token.LOR:
		return Value{T: tBool, S: or(env.evalBool(t.X), env.evalBool(t.Y))}
	}
	a, b := env.eval(t.X), env.eval(t.Y)
	// nil comparisons
	if t.Op == token.EQL || t.Op == token.NEQ {
		var r string
		switch {
		case isNilVal(b):
			r = nilTest(a)
		case isNilVal(a):
			r = nilTest(b)
		default:
			a, b = env.unify(a, b)
			r = valuesEqual(a, b)
		}
		if t.Op == token.NEQ {
			r = not(r)
		}
		return Value{T: tBool, S: r}
	}
	a, b = env.unify(a, b)
	rt := a.T
	switch t.Op {
	case token.LSS, token.LEQ, token.GTR, token.GEQ:
		rt = tBool
	}
	if kindOf(a.T) == kInt || kindOf(a.T) == kTime {
		// specification arithmetic is mathematical (no wrap-around)
		switch t.Op {
		case token.ADD:
			return Value{T: a.T, S: app("+", a.S, b.S)}
		case token.SUB:
			return Value{T: a.T, S: app("-", a.S, b.S)}
		case token.MUL:
			return Value{T: a.T, S: app("*", a.S, b.S)}
		case token.QUO:
			return Value{T: a.T, S: app("div", a.S, b.S)}
		case token.REM:
			return Value{T: a.T, S: app("mod", a.S, b.S)}
		}
	}
	return binop(t.Op, a, b, rt)
}

func (env *Env) unify(a, b Value) (Value, Value) {
	ka, kb := kindOf(a.T), kindOf(b.T)
	if ka == kFP && kb == kInt {
		return a, env.coerce(b, a.T)
	}
	if kb == kFP && ka == kInt {
		return env.coerce(a, b.T), b
	}
	// an untyped nil next to an interface is the nil interface, not a boxed nil
	if ka == kIface && isNilVal(b) {
		return a, zeroValue(a.T)
	}
	if kb == kIface && isNilVal(a) {
		return zeroValue(b.T), b
	}
	if ka == kIface && kb != kIface {
		return a, env.x.makeIface(env.s, b, a.T)
	}
	if kb == kIface && ka != kIface {
		return env.x.makeIface(env.s, a, b.T), b
	}
	return a, b
}

func isNilVal(v Value) bool {
	b, ok := v.T.(*types.Basic)
	return ok && b.Kind() == types.UntypedNil
}

func nilTest(v Value) string {
	if v.LV != nil {
		return "false" // a pointer into an object / to a variable is never nil
	}
	switch kindOf(v.T) {
	case kIface:
		return eq(v.F[0].S, "0")
	case kSlice:
		return eq(v.F[0].S, "0")
	case kRef:
		return eq(v.S, "0")
	}
	panic(specErr("nil comparison on " + typeKey(v.T)))
}

// ---------------------------------------------------------------------------
// types in contracts

func (env *Env) resolveTypeStr(s string) types.Type {
	e, err := parseExprSrc(s)
	if err != nil {
		env.fail("type %q: %v", s, err)
	}
	return env.resolveType(e)
}

func (env *Env) resolveType(e ast.Expr) types.Type {
	switch t := e.(type) {
	case *ast.ParenExpr:
		return env.resolveType(t.X)
	case *ast.Ident:
		if o := types.Universe.Lookup(t.Name); o != nil {
			if tn, ok := o.(*types.TypeName); ok {
				return tn.Type()
			}
		}
		if env.pkg != nil {
			if tn, ok := env.pkg.Scope().Lookup(t.Name).(*types.TypeName); ok {
				return tn.Type()
			}
		}
		if gt := env.x.v.ghostType(t.Name); gt != nil {
			return gt
		}
	case *ast.SelectorExpr:
		if id, ok := t.X.(*ast.Ident); ok {
			if p := env.importedPkgFor(id.Name, t.Sel.Name); p != nil {
				if tn, ok := p.Scope().Lookup(t.Sel.Name).(*types.TypeName); ok {
					return tn.Type()
				}
			}
		}
	case *ast.StarExpr:
		return types.NewPointer(env.resolveType(t.X))
	case *ast.ArrayType:
		if t.Len == nil {
			return types.NewSlice(env.resolveType(t.Elt))
		}
		if bl, ok := t.Len.(*ast.BasicLit); ok {
			n, _ := strconv.ParseInt(bl.Value, 0, 64)
			return types.NewArray(env.resolveType(t.Elt), n)
		}
	case *ast.MapType:
		return types.NewMap(env.resolveType(t.Key), env.resolveType(t.Value))
	case *ast.InterfaceType:
		return types.NewInterfaceType(nil, nil)
	}
	env.fail("cannot resolve type %s", exprString(e))
	return nil
}
