package main

// Calls: builtins, Go-coded models of a few library functions, callee
// contracts (own or trusted), and the havoc-everything fallback.

import (
	"go/token"
	"os"
	"fmt"
	"go/constant"
	"go/types"
	"sort"
	"strings"

	"golang.org/x/tools/go/ssa"
)

func (x *Exec) setResult(s *State, result ssa.Value, v Value) {
	if result != nil {
		if v.T == nil {
			v.T = result.Type()
		}
		s.env[result] = v
	}
}

// atSite checks the contract's "at <site> assert" clauses for an instruction
// (calls, and stores into maps: site "mapupdate", "mapupdate#2", ...).
func (x *Exec) atSite(s *State, in ssa.Instruction) bool {
	site := x.sites[in]
	if x.con == nil {
		return true
	}
	if a, has := x.siteAlias[in]; has && (len(x.con.At[a]) > 0 || len(x.con.AtGhost[a]) > 0) {
		site = a
	}
	ok := true
	for _, gc := range x.con.AtGhost[site] {
		func() {
			defer x.recoverSpec("at "+site+" ghost", &ok)
			g, declared := x.v.db.Ghosts[gc.Label]
			env := x.envFor(s, nil)
			if !declared {
				env.fail("ghost assignment to undeclared ghost variable %s", gc.Label)
			}
			val := env.eval(gc.Expr)
			gt := env.resolveTypeStr(g.Type)
			ls := leavesOf(gt)
			ts := flatten(val)
			if len(ls) != len(ts) {
				env.fail("ghost assignment %s: shape mismatch", gc.Label)
			}
			for i, l := range ls {
				key := "GH:" + gc.Label + l.Path
				x.regKey(key, l.Sort)
				if !x.mods.all && x.mods.allows(key, "") != "true" {
					ob := x.ob("frame", "ghost#"+sanitize(key), "ghost assignment to "+key+" outside the modifies clause", in)
					s.check(ob, "false")
				}
				s.heap.m[key] = ts[i]
			}
		}()
	}
	if !ok {
		return false
	}
	clauses := x.con.At[site]
	nOwn := len(clauses)
	if w := x.atWild[x.sites[in]]; len(w) > 0 {
		clauses = append(append([]Clause{}, clauses...), w...)
	}
	if len(clauses) == 0 {
		return true
	}
	func() {
		defer x.recoverSpec("at "+site, &ok)
		for i, cl := range clauses {
			site := site
			if i >= nOwn {
				// a wildcard assertion has ONE identity for all its sites
				site = strings.SplitN(x.sites[in], "#", 2)[0] + "*"
			}
			env := x.envFor(s, nil)
			// the arguments of the call at this site: arg0, arg1, ... (receiver first)
			if ci, ok := in.(ssa.CallInstruction); ok {
				for k, a := range ci.Common().Args {
					if v, has := func() (v Value, has bool) {
						defer func() {
							if recover() != nil {
								has = false
							}
						}()
						return x.val(s, a), true
					}(); has {
						env.vars[fmt.Sprintf("arg%d", k)] = v
					}
				}
			}
			t := env.checkTerm(cl)
			o := x.ob("at", site+"#"+clauseName(cl, i), cl.Src, in)
			s.check(o, t)
		}
	}()
	return ok
}

// call executes a call and then records the error it reported, if its last
// result is an error (errDropped checks what becomes of it).
func (x *Exec) call(s *State, in ssa.Instruction, c *ssa.CallCommon, result ssa.Value) bool {
	ok := x.call1(s, in, c, result)
	if !ok || result == nil || s.dead {
		return ok
	}
	res := c.Signature().Results()
	if f := c.StaticCallee(); f != nil {
		switch funcKey(f) {
		case "fmt.Errorf", "errors.New": // constructors: the value is the caller's own error
			return ok
		}
	}
	if n := res.Len(); n > 0 && isErrorType(res.At(n-1).Type()) {
		if v, has := s.env[result]; has {
			ev := v
			if n > 1 {
				if len(v.F) != n {
					return ok
				}
				ev = v.F[n-1]
			}
			if kindOf(ev.T) == kIface && len(ev.F) == 2 {
				if s.errSeen == nil {
					s.errSeen = map[string]string{}
				}
				s.errSeen[x.inlinePre+x.sites[in]] = eq(ev.F[0].S, "0")
				if s.errVal == nil {
					s.errVal = map[string][2]string{}
				}
				s.errVal[x.inlinePre+x.sites[in]] = [2]string{ev.F[0].S, ev.F[1].S}
				x.errType = ev.T
			}
		}
	}
	return ok
}

// errDropped: where a function reports success (a nil error result) or goes
// round a loop again, every error a callee reported on the way must have been
// nil — otherwise a fault was swallowed (property C14). A contract names the
// places where an error is tolerated BY DESIGN: "tolerates <site> // reason".
func (x *Exec) errDropped(s *State, resultNil string, where string, in ssa.Instruction) {
	if len(s.errSeen) == 0 || os.Getenv("GOWP_NOERRPROP") != "" {
		return
	}
	con := x.con
	if x.rootCon != nil {
		con = x.rootCon
	}
	var sites []string
	for k := range s.errSeen {
		sites = append(sites, k)
	}
	sort.Strings(sites)
	for _, site := range sites {
		cond := s.errSeen[site]
		if cond == "true" {
			continue
		}
		tolerated := false
		excuse := "false"
		if con != nil {
			for _, t := range con.Tolerates {
				pred := ""
				if k := strings.Index(t, " if "); k >= 0 {
					t, pred = strings.TrimSpace(t[:k]), strings.TrimSpace(t[k+4:])
				}
				if !(t == site || (strings.HasSuffix(t, "*") && strings.HasPrefix(site, strings.TrimSuffix(t, "*")))) {
					continue
				}
				if pred == "" {
					tolerated = true
					continue
				}
				// tolerated only under a condition on the error value e
				ev, has := s.errVal[site]
				if !has || x.errType == nil {
					continue
				}
				expr, err := parseExprSrc(pred)
				if err != nil {
					panic(specErr("tolerates " + t + ": " + err.Error()))
				}
				env := x.envFor(s, nil)
				env.vars["e"] = Value{T: x.errType, F: []Value{{T: tInt, S: ev[0]}, {T: tInt, S: ev[1]}}}
				excuse = or(excuse, env.evalBool(expr))
			}
		}
		if tolerated {
			continue
		}
		o := x.ob("errdrop", site, "the error reported by "+site+" is not swallowed ("+where+")", in)
		s.check(o, imp(resultNil, or(cond, excuse)))
	}
}

func (x *Exec) call1(s *State, in ssa.Instruction, c *ssa.CallCommon, result ssa.Value) bool {
	if !x.atSite(s, in) {
		return false
	}
	site := x.sites[in]
	if b, ok := c.Value.(*ssa.Builtin); ok {
		return x.builtin(s, in, b, c, result)
	}
	var args []Value
	var fn *ssa.Function
	var key string
	var recvIface *Value
	if c.IsInvoke() {
		recv := x.val(s, c.Value)
		recvIface = &recv
		o := x.ob("nil", site, "method call on nil interface: "+calleeName(c), in)
		s.check(o, not(eq(recv.F[0].S, "0")))
		args = append(args, recv)
		key = ifaceMethodKey(c.Value.Type(), c.Method.Name())
	} else if f := c.StaticCallee(); f != nil {
		fn = f
		key = funcKey(f)
		if mc, ok := c.Value.(*ssa.MakeClosure); ok {
			for _, b := range mc.Bindings {
				args = append(args, x.val(s, b)) // free variables first
			}
		}
	} else {
		fv := x.val(s, c.Value)
		if fv.Fn != nil {
			fn = fv.Fn.Fn.(*ssa.Function)
			key = fv.Fn.Name
			args = append(args, fv.Fn.Bindings...)
		} else {
			// calling a nil function value panics
			if fv.S != "" && kindOf(fv.T) != kIface {
				o := x.ob("nil", site, "call of a nil function value: "+c.Value.Name(), in)
				s.check(o, not(eq(fv.S, "0")))
			}
			key = "funcvalue:" + c.Value.Name()
			// the function value a call returned: contract under <callee>#result
			if cr, ok := c.Value.(*ssa.Call); ok {
				if sc := cr.Common().StaticCallee(); sc != nil {
					key = funcKey(sc) + "#result"
				}
			}
			// a package-level variable of function type: contract under the variable's name
			if u, ok := c.Value.(*ssa.UnOp); ok {
				if g, ok := u.X.(*ssa.Global); ok {
					key = g.Pkg.Pkg.Path() + "." + g.Name()
				}
				// a captured variable / parameter holding a function (by reference)
				if fv, ok := u.X.(*ssa.FreeVar); ok {
					key = funcKey(x.fn) + "#" + fv.Name()
				}
				// a function-typed struct field: contract under <pkg>.<Struct>.<field>
				if fa, ok := u.X.(*ssa.FieldAddr); ok {
					if n, ok := fa.X.Type().Underlying().(*types.Pointer).Elem().(*types.Named); ok && n.Obj().Pkg() != nil {
						st := n.Underlying().(*types.Struct)
						key = n.Obj().Pkg().Path() + "." + n.Obj().Name() + "." + st.Field(fa.Field).Name()
					}
				}
			}
			// a function-typed parameter may have a contract attached in the enclosing contract
			if p, ok := c.Value.(*ssa.Parameter); ok {
				key = funcKey(x.fn) + "#" + p.Name()
			} else if fvv, ok := c.Value.(*ssa.FreeVar); ok {
				key = funcKey(x.fn) + "#" + fvv.Name()
			}
		}
	}
	for _, a := range c.Args {
		args = append(args, x.val(s, a))
	}
	nfree := len(args) - len(c.Args)
	if c.IsInvoke() {
		nfree = 0
	}
	// 0. closure constructors: the callee's body is "return func(...){...}" over
	// its own parameters; the result is that closure with the arguments bound
	// (checked on the callee's SSA at every call, so the caller sees the real
	// closure and the closure's own contract applies where it is invoked)
	if con := x.v.db.Funcs[key]; con != nil && con.ReturnsClosure && fn != nil {
		con.Used = true
		v, why := closureCtor(x, s, fn, args)
		o := x.ob("closure", site, "callee "+key+" only builds and returns one closure over its parameters"+why, in)
		if why != "" {
			s.check(o, "false")
			return false
		}
		s.check(o, "true")
		x.setResult(s, result, v)
		return true
	}
	// 1. Go-coded models
	if m, ok := models[key]; ok {
		r, cont := m(x, s, in, args[nfree:], c)
		if cont {
			x.setResult(s, result, r)
		}
		return cont
	}
	// 2. contracts
	if con := x.v.db.Funcs[key]; con != nil {
		con.Used = true
		names := x.paramNames(fn, c, key)
		var sig *types.Signature
		if fn != nil {
			sig = fn.Signature
		} else {
			sig = c.Signature()
		}
		r := x.applyContract(s, con, names, args, sig, in, site, fn)
		x.setResult(s, result, r)
		return x.failed == ""
	}
	// 3. a small helper of the repository without a contract: its body is executed
	// in place (no loops, one return). This keeps "extract a helper" refactorings
	// from un-proving the caller; the helper's own safety obligations are the
	// caller's, under the site prefix in:<site>:
	if fn != nil && x.inlinable(fn) {
		if handled, cont := x.inlineCall(s, in, fn, args, result); handled {
			return cont
		}
	}
	// 4. unknown callee
	_ = recvIface
	x.note("call without contract (everything havocked): " + key)
	x.v.unknownCalls.Store(key, true)
	if x.v.strictCalls {
		o := x.ob("nocontract", site, "callee has no contract: "+key, in)
		s.check(o, "false")
	}
	s.havocAll()
	var rt types.Type
	if result != nil {
		rt = result.Type()
	}
	if rt != nil {
		v := x.freshResult(s, rt)
		x.setResult(s, result, v)
	}
	return true
}

func (x *Exec) freshResult(s *State, rt types.Type) Value {
	if tu, ok := rt.(*types.Tuple); ok {
		v := Value{T: rt}
		for i := 0; i < tu.Len(); i++ {
			f := x.freshValue("ret", tu.At(i).Type())
			s.assumeRanges(f)
			v.F = append(v.F, f)
		}
		return v
	}
	v := x.freshValue("ret", rt)
	s.assumeRanges(v)
	return v
}

func ifaceMethodKey(t types.Type, method string) string {
	if n, ok := t.(*types.Named); ok && n.Obj().Pkg() != nil {
		return n.Obj().Pkg().Path() + "." + n.Obj().Name() + "." + method
	}
	if n, ok := t.(*types.Named); ok {
		return n.Obj().Name() + "." + method
	}
	return typeKey(t) + "." + method
}

func (x *Exec) paramNames(fn *ssa.Function, c *ssa.CallCommon, key string) []string {
	var names []string
	if fn != nil {
		for _, fv := range fn.FreeVars {
			names = append(names, fv.Name())
		}
		if len(fn.Params) > 0 {
			for _, p := range fn.Params {
				names = append(names, p.Name())
			}
			return names
		}
		sig := fn.Signature
		if sig.Recv() != nil {
			names = append(names, recvName(sig.Recv()))
		}
		for i := 0; i < sig.Params().Len(); i++ {
			names = append(names, paramName(sig.Params().At(i), i))
		}
		return names
	}
	sig := c.Signature()
	if c.IsInvoke() {
		names = append(names, "recv")
	}
	for i := 0; i < sig.Params().Len(); i++ {
		names = append(names, paramName(sig.Params().At(i), i))
	}
	return names
}

func recvName(v *types.Var) string {
	if v.Name() == "" || v.Name() == "_" {
		return "recv"
	}
	return v.Name()
}

func paramName(v *types.Var, i int) string {
	if v.Name() == "" || v.Name() == "_" {
		return fmt.Sprintf("arg%d", i)
	}
	return v.Name()
}

// applyContract: assert requires, havoc modifies, assume ensures.
func (x *Exec) applyContract(s *State, con *Contract, names []string, args []Value, sig *types.Signature, in ssa.Instruction, site string, fn *ssa.Function) Value {
	vars := map[string]Value{}
	for i, n := range names {
		if i < len(args) {
			vars[n] = args[i]
			vars[fmt.Sprintf("arg%d", i)] = args[i]
		}
	}
	pkg := x.v.typesPkg(con.Pkg)
	env := &Env{x: x, s: s, hp: s.heap, old: s.heap, allocOld: s.alloc, vars: vars, pkg: pkg}
	// callee's universally quantified constants: fresh for requires
	for _, av := range con.Any {
		t := env.resolveTypeStr(av.Type)
		vars[av.Name] = x.freshValue("sk_"+av.Name, t)
	}
	ok := true
	func() {
		defer x.recoverSpec(con.Name, &ok)
		for i, c := range con.Requires {
			t := env.checkTerm(c)
			o := x.ob("pre", site+"#"+clauseName(c, i), "precondition of "+con.Name+": "+c.Src, in)
			s.check(o, t)
		}
	}()
	if !ok {
		return Value{}
	}
	// modifies
	cm := &ModSet{}
	func() {
		defer x.recoverSpec(con.Name, &ok)
		for _, c := range con.Modifies {
			if id, isID := c.Expr.(interface{ String() string }); isID && id.String() == "all" {
				cm.all = true
				continue
			}
			cm.items = append(cm.items, env.evalMod(c.Expr)...)
		}
	}()
	if !ok {
		return Value{}
	}
	// caller's frame must cover the callee's
	if cm.all && !x.mods.all {
		o := x.ob("frame", site, "callee "+con.Name+" may modify anything", in)
		s.check(o, "false")
	}
	for _, it := range cm.items {
		if strings.HasPrefix(it.key, "G:") || strings.HasPrefix(it.key, "GH:") || it.addr == "" {
			if !x.mods.all && x.mods.allows(it.key, "") != "true" {
				o := x.ob("frame", site+"#"+sanitize(it.key), "callee "+con.Name+" modifies "+it.key, in)
				s.check(o, "false")
			}
			continue
		}
		x.frameCheck(s, it.key, it.addr, in)
	}
	oldHeap := s.heap.clone()
	allocOld := s.alloc
	if cm.all {
		s.havocAll()
	} else {
		for _, k := range cm.keys() {
			k := k
			if strings.HasPrefix(k, "G:") || strings.HasPrefix(k, "GH:") {
				s.heap.m[k] = x.fresh("hv_"+k, x.heapSort(k))
				continue
			}
			s.havocKey(k, func(addr string) string {
				return and(app("<", addr, allocOld), not(cm.allows(k, addr)))
			})
		}
		na := x.fresh("alloc", sInt)
		s.assume(app("<=", s.alloc, na))
		s.alloc = na
		s.sealHavoc()
	}
	// results
	var rv Value
	res := sig.Results()
	var results []Value
	for i := 0; i < res.Len(); i++ {
		v := x.freshValue("r_"+shortName(con.Name), res.At(i).Type())
		s.assumeRanges(v)
		results = append(results, v)
	}
	switch len(results) {
	case 0:
		rv = Value{}
	case 1:
		rv = results[0]
	default:
		rv = Value{T: res, F: results}
	}
	// ensures, instantiated at the caller's skolem constants
	post := &Env{x: x, s: s, hp: s.heap, old: oldHeap, allocOld: allocOld, vars: vars, pkg: pkg, inCallee: true}
	bindResults(post, sig, results)
	insts := x.instantiations(post, con)
	func() {
		defer x.recoverSpec(con.Name, &ok)
		for _, inst := range insts {
			for n, v := range inst {
				vars[n] = v
			}
			for _, c := range con.Ensures {
				if c.Local || !x.wants(c) {
					continue
				}
				post.assumeClause(c)
			}
			for _, c := range con.Assumed {
				if !x.wants(c) {
					continue
				}
				post.assumeClause(c)
			}
		}
	}()
	return rv
}

func shortName(s string) string {
	s = strings.NewReplacer("(", "", ")", "", "*", "", "$", "_").Replace(s)
	return s
}

// instantiations of the callee's "any" variables at the call site: the
// caller's own skolem constants of the same type (one instantiation per
// combination; at least one — fresh constants — if nothing matches).
func (x *Exec) instantiations(env *Env, con *Contract) []map[string]Value {
	out := []map[string]Value{{}}
	for _, av := range con.Any {
		t := env.resolveTypeStr(av.Type)
		var cands []Value
		names := make([]string, 0, len(x.anyVals))
		for n := range x.anyVals {
			names = append(names, n)
		}
		sort.Strings(names)
		for _, n := range names {
			if types.Identical(x.anyVals[n].T, t) {
				cands = append(cands, x.anyVals[n])
			}
		}
		if len(cands) == 0 {
			cands = []Value{x.freshValue("inst_"+av.Name, t)}
		}
		var next []map[string]Value
		for _, m := range out {
			for _, c := range cands {
				n := map[string]Value{}
				for k, v := range m {
					n[k] = v
				}
				n[av.Name] = c
				next = append(next, n)
			}
		}
		out = next
	}
	return out
}

func (x *Exec) recoverSpec(what string, ok *bool) {
	if r := recover(); r != nil {
		switch e := r.(type) {
		case specErr:
			x.failed = "contract of " + what + ": " + string(e)
			*ok = false
		case unsupported:
			x.failed = "contract of " + what + ": " + string(e)
			*ok = false
		default:
			panic(r)
		}
	}
}

// calleeModKeys: heap keys a call may modify (for loop havoc), from the
// callee's contract; unknown callees give "*".
func (x *Exec) calleeModKeys(s *State, in ssa.CallInstruction) []string {
	c := in.Common()
	if _, ok := c.Value.(*ssa.Builtin); ok {
		b := c.Value.(*ssa.Builtin)
		switch b.Name() {
		case "delete":
			mt := c.Args[0].Type().Underlying().(*types.Map)
			has, ln, _, _ := s.mapKeys(mt)
			return []string{has, ln}
		case "copy":
			st, ok := c.Args[0].Type().Underlying().(*types.Slice)
			if ok {
				var out []string
				prefix := "E:" + typeKey(st.Elem())
				for _, l := range s.regLeaves(prefix, st.Elem(), true) {
					out = append(out, prefix+l.Path)
				}
				return out
			}
		}
		return nil
	}
	var key string
	var fn *ssa.Function
	if c.IsInvoke() {
		key = ifaceMethodKey(c.Value.Type(), c.Method.Name())
	} else if f := c.StaticCallee(); f != nil {
		key = funcKey(f)
		fn = f
	} else {
		if p, ok := c.Value.(*ssa.Parameter); ok {
			key = funcKey(x.fn) + "#" + p.Name()
		} else if fvv, ok := c.Value.(*ssa.FreeVar); ok {
			key = funcKey(x.fn) + "#" + fvv.Name()
		} else if u, ok := c.Value.(*ssa.UnOp); ok {
			if g, ok := u.X.(*ssa.Global); ok {
				key = g.Pkg.Pkg.Path() + "." + g.Name()
			} else if fv, ok := u.X.(*ssa.FreeVar); ok {
				key = funcKey(x.fn) + "#" + fv.Name()
			} else if fa, ok := u.X.(*ssa.FieldAddr); ok {
				// a function-typed struct field: contract under <pkg>.<Struct>.<field>
				n, ok := fa.X.Type().Underlying().(*types.Pointer).Elem().(*types.Named)
				if !ok || n.Obj().Pkg() == nil {
					return []string{"*"}
				}
				st := n.Underlying().(*types.Struct)
				key = n.Obj().Pkg().Path() + "." + n.Obj().Name() + "." + st.Field(fa.Field).Name()
			} else {
				return []string{"*"}
			}
		} else {
			return []string{"*"}
		}
	}
	if key == "github.com/jrhy/mast.(*Mast).DiffIter" || key == "github.com/jrhy/mast.(*Mast).DiffLinks" {
		// the effect of the iterator is the effect of its callback
		if mc, ok := c.Args[len(c.Args)-1].(*ssa.MakeClosure); ok {
			if cf, ok := mc.Fn.(*ssa.Function); ok {
				if ccon := x.v.db.Funcs[funcKey(cf)]; ccon != nil {
					var pt []types.Type
					for _, fv := range cf.FreeVars {
						pt = append(pt, fv.Type())
					}
					for _, p := range cf.Params {
						pt = append(pt, p.Type())
					}
					return x.contractModKeys(s, ccon, x.paramNames(cf, nil, funcKey(cf)), pt)
				}
			}
		}
		return []string{"*"}
	}
	if mk, ok := modelModKeys[key]; ok {
		return mk(x, s)
	}
	if _, ok := models[key]; ok {
		return nil
	}
	con := x.v.db.Funcs[key]
	if con == nil {
		return []string{"*"}
	}
	if len(con.Modifies) == 0 {
		return nil
	}
	// evaluate the modifies clause with fresh symbolic arguments to learn the keys
	var sig *types.Signature
	if fn != nil {
		sig = fn.Signature
	} else {
		sig = c.Signature()
	}
	names := x.paramNames(fn, c, key)
	var ptypes []types.Type
	if fn != nil {
		for _, fv := range fn.FreeVars {
			ptypes = append(ptypes, fv.Type())
		}
	}
	if sig.Recv() != nil || c.IsInvoke() {
		if c.IsInvoke() {
			ptypes = append(ptypes, c.Value.Type())
		} else {
			ptypes = append(ptypes, sig.Recv().Type())
		}
	}
	for i := 0; i < sig.Params().Len(); i++ {
		ptypes = append(ptypes, sig.Params().At(i).Type())
	}
	return x.contractModKeys(s, con, names, ptypes)
}

// contractModKeys evaluates a modifies clause with fresh symbolic arguments to
// learn which heap keys it can touch.
func (x *Exec) contractModKeys(s *State, con *Contract, names []string, ptypes []types.Type) []string {
	if len(con.Modifies) == 0 {
		return nil
	}
	vars := map[string]Value{}
	tmp := s.clone()
	for i, n := range names {
		if i < len(ptypes) {
			vars[n] = x.freshValue("mk", ptypes[i])
		}
	}
	env := &Env{x: x, s: tmp, hp: tmp.heap, old: tmp.heap, allocOld: tmp.alloc, vars: vars, pkg: x.v.typesPkg(con.Pkg)}
	var keys []string
	ok := true
	func() {
		defer func() {
			if r := recover(); r != nil {
				ok = false
			}
		}()
		for _, cl := range con.Modifies {
			if id, isID := cl.Expr.(interface{ String() string }); isID && id.String() == "all" {
				keys = append(keys, "*")
				continue
			}
			for _, it := range env.evalMod(cl.Expr) {
				keys = append(keys, it.key)
			}
		}
	}()
	if !ok {
		return []string{"*"}
	}
	return keys
}

// ---------------------------------------------------------------------------
// builtins

func (x *Exec) builtin(s *State, in ssa.Instruction, b *ssa.Builtin, c *ssa.CallCommon, result ssa.Value) bool {
	var args []Value
	for _, a := range c.Args {
		args = append(args, x.val(s, a))
	}
	switch b.Name() {
	case "len":
		v := args[0]
		switch kindOf(v.T) {
		case kSlice:
			x.setResult(s, result, Value{T: tInt, S: v.F[2].S})
		case kStr:
			x.setResult(s, result, Value{T: tInt, S: app("str.len", v.S)})
		case kRef:
			if _, ok := v.T.Underlying().(*types.Map); ok {
				x.setResult(s, result, Value{T: tInt, S: s.mapLen(s.heap, v)})
			} else if pt, ok := v.T.Underlying().(*types.Pointer); ok {
				x.setResult(s, result, Value{T: tInt, S: intLit(pt.Elem().Underlying().(*types.Array).Len())})
			} else {
				panic(unsupported("len of " + typeKey(v.T)))
			}
		case kArray:
			x.setResult(s, result, Value{T: tInt, S: intLit(v.T.Underlying().(*types.Array).Len())})
		default:
			panic(unsupported("len of " + typeKey(v.T)))
		}
	case "cap":
		v := args[0]
		if kindOf(v.T) == kSlice {
			x.note("cap() abstracted to len()")
			x.setResult(s, result, Value{T: tInt, S: v.F[2].S})
		} else {
			panic(unsupported("cap"))
		}
	case "append":
		x.appendOp(s, in, args, result)
	case "copy":
		x.copyOp(s, in, args, result)
	case "delete":
		m, k := args[0], args[1]
		mt := m.T.Underlying().(*types.Map)
		has, _, _, _ := s.mapKeys(mt)
		x.frameCheck(s, has, m.S, in)
		s.mapDelete(m, mapKeyTerm(k))
	case "print", "println":
	case "min", "max":
		a, bb := args[0], args[1]
		op := "<="
		if b.Name() == "max" {
			op = ">="
		}
		x.setResult(s, result, Value{T: a.T, S: ite(app(op, a.S, bb.S), a.S, bb.S)})
	default:
		panic(unsupported("builtin " + b.Name()))
	}
	return true
}

// append: modelled as always producing a fresh backing array holding the
// concatenation (aliasing between the old and new slice through spare
// capacity is not modelled; reported in the abstraction list).
func (x *Exec) appendOp(s *State, in ssa.Instruction, args []Value, result ssa.Value) {
	a, b := args[0], args[1]
	x.note("append modelled as copy into a fresh backing array (no capacity aliasing)")
	var st *types.Slice
	st = a.T.Underlying().(*types.Slice)
	prefix := "E:" + typeKey(st.Elem())
	ls := s.regLeaves(prefix, st.Elem(), true)
	r := s.allocRef()
	x.freshRef[r] = true
	var blen string
	bIsStr := kindOf(b.T) == kStr
	if bIsStr {
		blen = app("str.len", b.S)
	} else {
		blen = b.F[2].S
	}
	nl := app("+", a.F[2].S, blen)
	for _, l := range ls {
		key := prefix + l.Path
		na := x.fresh("app", arrSort(sInt, l.Sort))
		// pointwise facts are instantiated lazily is not possible without quantifiers;
		// we give the two facts that the code under contract relies on: the prefix is
		// preserved at skolem indices and the appended single element sits at len(a).
		srcA := s.read(s.heap, key, a.F[0].S)
		{
			// element-wise facts as engine-generated universals, instantiated at index terms
			aoff, alen, boff := a.F[1].S, a.F[2].S, ""
			srcB := ""
			if !bIsStr {
				srcB = s.read(s.heap, key, b.F[0].S)
				boff = b.F[1].S
			}
			naC, nlC := na, nl
			u := &universal{vars: []AnyVar{{"i", ""}}, types: []types.Type{types.Typ[types.Int]}, sorts: []string{sInt}, done: map[string]bool{}}
			u.gen = func(st *State, chosen []string) string {
				idx := chosen[0]
				f := imp(and(app("<=", "0", idx), app("<", idx, alen)), eq(sel(naC, idx), sel(srcA, app("+", aoff, idx))))
				if srcB != "" {
					f = and(f, imp(and(app("<=", alen, idx), app("<", idx, nlC)), eq(sel(naC, idx), sel(srcB, app("+", boff, app("-", idx, alen))))))
				}
				return f
			}
			s.univ = append(s.univ, u)
			s.instantiate(u)
		}
		if !bIsStr {
			// single-element appends (the overwhelmingly common case): element at old len
			srcB := s.read(s.heap, key, b.F[0].S)
			s.assume(imp(eq(blen, "1"), eq(sel(na, a.F[2].S), sel(srcB, b.F[1].S))))
		}
		s.writeWhole(key, r, na)
	}
	if kindOf(st.Elem()) == kInt && !bIsStr {
		// content strings concatenate
		res := sliceVal(a.T, r, "0", nl)
		s.assume(eq(x.bytesStr(s, s.heap, res), app("str.++", x.bytesStr(s, s.heap, a), x.bytesStr(s, s.heap, b))))
	}
	x.setResult(s, result, sliceVal(a.T, r, "0", nl))
}

func (x *Exec) copyOp(s *State, in ssa.Instruction, args []Value, result ssa.Value) {
	dst, src := args[0], args[1]
	st := dst.T.Underlying().(*types.Slice)
	prefix := "E:" + typeKey(st.Elem())
	ls := s.regLeaves(prefix, st.Elem(), true)
	var slen string
	if kindOf(src.T) == kStr {
		slen = app("str.len", src.S)
	} else {
		slen = src.F[2].S
	}
	n := ite(app("<=", dst.F[2].S, slen), dst.F[2].S, slen)
	oldHeapForCopy := s.heap.clone()
	for _, l := range ls {
		key := prefix + l.Path
		x.frameCheck(s, key, dst.F[0].S, in)
		old := s.read(s.heap, key, dst.F[0].S)
		na := x.fresh("cpy", arrSort(sInt, l.Sort))
		for _, idx := range x.instKeys(s, sInt) {
			in := and(app("<=", dst.F[1].S, idx), app("<", idx, app("+", dst.F[1].S, n)))
			s.assume(imp(not(in), eq(sel(na, idx), sel(old, idx))))
			if kindOf(src.T) != kStr {
				srcA := s.read(s.heap, key, src.F[0].S)
				s.assume(imp(in, eq(sel(na, idx), sel(srcA, app("+", src.F[1].S, app("-", idx, dst.F[1].S))))))
			}
		}
		s.writeWhole(key, dst.F[0].S, na)
	}
	if b, ok := st.Elem().Underlying().(*types.Basic); ok && (b.Kind() == types.Uint8 || b.Kind() == types.Byte) {
		// content strings: the first n bytes come from the source, the rest stays
		var srcStr string
		if kindOf(src.T) == kStr {
			srcStr = src.S
		} else {
			srcStr = x.bytesStr(s, oldHeapForCopy, src)
		}
		oldStr := x.bytesStr(s, oldHeapForCopy, dst)
		newStr := x.bytesStr(s, s.heap, dst)
		s.assume(eq(newStr, app("str.++", app("str.substr", srcStr, "0", n), app("str.substr", oldStr, n, app("-", dst.F[2].S, n)))))
	}
	x.setResult(s, result, Value{T: tInt, S: n})
}

// ---------------------------------------------------------------------------
// abstract helpers shared by models and the contract language

// durOf: the duration denoted by a *durationpb.Duration (nil -> 0).
func (x *Exec) durOf(s *State, hp *Heap, p string) string {
	key := "H:durationpb.Duration.$dur"
	x.regKey(key, arrSort(sInt, sInt))
	d := s.read(hp, key, p)
	lo, hi, _ := intRange(types.Typ[types.Int64])
	s.assume(and(app("<=", lo, d), app("<=", d, hi)))
	return ite(eq(p, "0"), "0", d)
}

func (x *Exec) errNoSuchKey(v Value) string {
	x.declAwsFuns()
	return and(not(eq(v.F[0].S, "0")), app("err_isaws", v.F[0].S, v.F[1].S),
		eq(app("err_awscode", v.F[0].S, v.F[1].S), strLit("NoSuchKey")))
}

func constString(v ssa.Value) (string, bool) {
	c, ok := v.(*ssa.Const)
	if !ok || c.Value == nil || c.Value.Kind() != constant.String {
		return "", false
	}
	return constant.StringVal(c.Value), true
}

// akeyOf: abstract key identity (see builtin akey).
func (x *Exec) akeyOf(s *State, hp *Heap, v Value) string {
	x.declareFun("akey_generic", []string{sInt, sInt}, sInt)
	gen := app("akey_generic", v.F[0].S, v.F[1].S)
	kt := x.v.keyPtrType()
	if kt == nil {
		return gen
	}
	tag := x.v.tagOf(kt)
	// contents of the *Key (read in the given heap; keys are immutable once built)
	kp := Value{T: kt, S: v.F[1].S}
	env := &Env{x: x, s: s, hp: hp, old: hp, allocOld: s.alloc, vars: map[string]Value{"k": kp}, pkg: x.v.typesPkg("github.com/jrhy/s3db")}
	sv := env.field(kp, "SQLiteValue")
	typ := env.field(sv, "Type").S
	in := env.field(sv, "Int").S
	re := env.field(sv, "Real").S
	tx := env.field(sv, "Text").S
	bl := x.bytesStr(s, hp, env.field(sv, "Blob"))
	x.declareFun("akey_sqlite", []string{sInt, sInt, sFP, sStr, sStr}, sInt)
	// only the field selected by the storage class matters
	in = ite(eq(typ, "1"), in, "0")
	re = ite(eq(typ, "2"), re, "(_ +zero 11 53)")
	tx = ite(eq(typ, "3"), tx, "\"\"")
	bl = ite(eq(typ, "4"), bl, "\"\"")
	return ite(eq(v.F[0].S, tag), app("akey_sqlite", typ, in, re, tx, bl), gen)
}


// wants: a postcondition labelled "on-<opt>.<name>" is a heavy (quantified)
// fact that only some callers need: it is assumed at a call site only when the
// calling function's contract declares "option <opt>". It is proved (or, in a
// trusted file, listed as assumed) like any other clause.
func (x *Exec) wants(c Clause) bool {
	if !strings.HasPrefix(c.Label, "on-") {
		return true
	}
	k := strings.Index(c.Label, ".")
	if k < 0 {
		return true
	}
	if x.con == nil {
		return false
	}
	_, ok := x.con.Options[c.Label[3:k]]
	return ok
}

// closureCtor recognises a function whose body is a single block that only
// spills its parameters into cells (go/ssa captures by reference), makes one
// closure over those cells (or over parameters) and returns it. The caller
// then holds that closure with its arguments bound. The second result says why
// the shape does not hold ("" when it does).
func closureCtor(x *Exec, s *State, fn *ssa.Function, args []Value) (Value, string) {
	if len(fn.Blocks) != 1 {
		return Value{}, ": the body has control flow"
	}
	paramIdx := func(v ssa.Value) int {
		for i, q := range fn.Params {
			if ssa.Value(q) == v {
				return i
			}
		}
		return -1
	}
	cellOf := map[*ssa.Alloc]int{} // cell -> parameter stored in it
	var mc *ssa.MakeClosure
	returned := false
	// a function literal that captures nothing is a plain function value
	var plain *ssa.Function
	var plainT types.Type
	var plainV ssa.Value
	var converted *ssa.ChangeType
	for _, in := range fn.Blocks[0].Instrs {
		switch t := in.(type) {
		case *ssa.DebugRef:
		case *ssa.ChangeType:
			if m, isMC := t.X.(*ssa.MakeClosure); isMC && m == mc && converted == nil {
				converted = t // the closure under a named function type
				continue
			}
			f, ok := t.X.(*ssa.Function)
			if !ok || plain != nil || f.Parent() != fn {
				return Value{}, fmt.Sprintf(": the body does more than build a closure (%T)", in)
			}
			plain, plainT, plainV = f, t.Type(), t
		case *ssa.Alloc:
			cellOf[t] = -1
		case *ssa.Store:
			a, isCell := t.Addr.(*ssa.Alloc)
			k := paramIdx(t.Val)
			if !isCell || k < 0 || cellOf[a] != -1 || mc != nil {
				return Value{}, ": the body does more than spill its parameters"
			}
			cellOf[a] = k
		case *ssa.MakeClosure:
			if mc != nil {
				return Value{}, ": more than one closure is built"
			}
			mc = t
		case *ssa.Return:
			if len(t.Results) == 1 && mc == nil {
				if f, ok := t.Results[0].(*ssa.Function); ok && plain == nil && f.Parent() == fn {
					plain, plainT, plainV = f, f.Type(), f
				}
				if plain != nil && t.Results[0] == plainV {
					if s == nil {
						return Value{}, ""
					}
					return Value{T: plainT, S: x.fresh("closure", sInt), Fn: &FnVal{Name: funcKey(plain), Fn: plain}}, ""
				}
			}
			if mc == nil || len(t.Results) != 1 || !(t.Results[0] == ssa.Value(mc) || (converted != nil && t.Results[0] == ssa.Value(converted))) {
				return Value{}, ": the result is not the closure"
			}
			returned = true
		default:
			return Value{}, fmt.Sprintf(": the body does more than build a closure (%T)", in)
		}
	}
	if mc == nil || !returned {
		return Value{}, ": no closure is built and returned"
	}
	var bs []Value
	for _, b := range mc.Bindings {
		if a, ok := b.(*ssa.Alloc); ok {
			k, known := cellOf[a]
			if !known || k < 0 || k >= len(args) {
				return Value{}, ": a captured variable does not hold a parameter"
			}
			if s == nil { // shape check only
				continue
			}
			et := a.Type().Underlying().(*types.Pointer).Elem()
			p := s.allocObj(et)
			p.T = a.Type()
			x.freshRef[p.S] = true
			s.store(p, args[k])
			bs = append(bs, p)
			continue
		}
		k := paramIdx(b)
		if k < 0 || k >= len(args) {
			return Value{}, ": a captured variable is not a parameter"
		}
		bs = append(bs, args[k])
	}
	cf := mc.Fn.(*ssa.Function)
	if s == nil {
		return Value{}, ""
	}
	return Value{T: mc.Type(), S: x.fresh("closure", sInt), Fn: &FnVal{Name: funcKey(cf), Fn: cf, Bindings: bs}}, ""
}

// inlinable: a function of the repository, with a body, without loops, defers,
// recover or goroutines, with exactly one return, small, and not (mutually)
// recursive with what is being executed.
func (x *Exec) inlinable(fn *ssa.Function) bool {
	if os.Getenv("GOWP_NOINLINE") != "" || x.inlineDepth >= 2 || fn == x.fn || fn == x.rootFn {
		return false
	}
	if fn.Pkg == nil || !strings.HasPrefix(fn.Pkg.Pkg.Path(), "github.com/jrhy/s3db") || len(fn.Blocks) == 0 || len(fn.Blocks) > 16 || fn.Recover != nil {
		return false
	}
	if ok, cached := x.v.inlinableCache.Load(fn); cached {
		return ok.(bool)
	}
	ok := func() bool {
		returns, instrs := 0, 0
		for _, b := range fn.Blocks {
			for _, in := range b.Instrs {
				instrs++
				switch in.(type) {
				case *ssa.Return:
					returns++
				case *ssa.Defer, *ssa.RunDefers, *ssa.Go, *ssa.Select, *ssa.Send, *ssa.Range, *ssa.Next:
					return false
				}
			}
		}
		if returns != 1 || instrs > 120 {
			return false
		}
		// no cycle in the control-flow graph
		color := map[*ssa.BasicBlock]int{}
		var cyclic func(b *ssa.BasicBlock) bool
		cyclic = func(b *ssa.BasicBlock) bool {
			color[b] = 1
			for _, s := range b.Succs {
				if color[s] == 1 || (color[s] == 0 && cyclic(s)) {
					return true
				}
			}
			color[b] = 2
			return false
		}
		return !cyclic(fn.Blocks[0])
	}()
	x.v.inlinableCache.Store(fn, ok)
	return ok
}

// inlineCall executes the helper's body on a copy of the state. It reports
// handled=false (and leaves s untouched) when the helper's paths do not come
// together in one state at its return.
func (x *Exec) inlineCall(s *State, in ssa.Instruction, fn *ssa.Function, args []Value, result ssa.Value) (handled, cont bool) {
	type saved struct {
		fn                 *ssa.Function
		con                *Contract
		pkg                *types.Package
		loops              map[int]*loopInfo
		params             map[string]Value
		sites              map[ssa.Instruction]string
		siteAlias          map[ssa.Instruction]string
		ai                 *assignInfo
		allocPos           map[token.Pos]bool
		ipdom              map[*ssa.BasicBlock]*ssa.BasicBlock
		ipdomDone, retCov  bool
		rootFn             *ssa.Function
		rootParams         map[string]Value
		rootCon            *Contract
		inlinePre          string
		inlineCap          *[]inlineRet
	}
	sv := saved{x.fn, x.con, x.pkg, x.loops, x.params, x.sites, x.siteAlias, x.ai, x.allocPos, x.ipdom, x.ipdomDone, x.retCover, x.rootFn, x.rootParams, x.rootCon, x.inlinePre, x.inlineCap}
	restore := func() {
		x.fn, x.con, x.pkg, x.loops, x.params, x.sites, x.siteAlias, x.ai, x.allocPos = sv.fn, sv.con, sv.pkg, sv.loops, sv.params, sv.sites, sv.siteAlias, sv.ai, sv.allocPos
		x.ipdom, x.ipdomDone, x.retCover, x.rootFn, x.rootParams, x.rootCon, x.inlinePre, x.inlineCap = sv.ipdom, sv.ipdomDone, sv.retCov, sv.rootFn, sv.rootParams, sv.rootCon, sv.inlinePre, sv.inlineCap
		x.inlineDepth--
	}
	site := x.sites[in]
	if x.rootFn == nil {
		x.rootFn, x.rootParams, x.rootCon = x.fn, x.params, x.con
	}
	x.inlinePre = sv.inlinePre + "in:" + site + ":"
	x.fn, x.con, x.pkg = fn, nil, fn.Pkg.Pkg
	x.loops, x.sites, x.siteAlias, x.ai, x.allocPos, x.ipdom, x.ipdomDone, x.retCover = nil, nil, nil, nil, nil, nil, false, false
	x.inlineDepth++
	var caps []inlineRet
	x.inlineCap = &caps
	work := s.clone()
	work.names = map[string]nameBind{}
	work.defers = nil
	work.loops = s.loops
	work.errfacts, work.noTrig, work.pendingBound, work.instDepth, work.pendingTrig = s.errfacts, s.noTrig, s.pendingBound, s.instDepth, s.pendingTrig
	ok := true
	func() {
		defer func() {
			if r := recover(); r != nil {
				if _, isU := r.(unsupported); isU {
					ok = false // outside the subset: fall back to the unknown-callee treatment
					return
				}
				panic(r)
			}
		}()
		x.findLoops()
		x.siteIDs()
		x.params = map[string]Value{}
		k := 0
		for _, fv := range fn.FreeVars {
			if k < len(args) {
				work.env[fv] = args[k]
				x.params[fv.Name()] = args[k]
			}
			k++
		}
		for _, p := range fn.Params {
			if k < len(args) {
				work.env[p] = args[k]
				x.params[p.Name()] = args[k]
			}
			k++
		}
		x.run(work, fn.Blocks[0], nil, nil)
	}()
	restore()
	if x.failed != "" {
		return true, false
	}
	if !ok || len(caps) > 1 {
		x.note("helper " + funcKey(fn) + " could not be executed in place (paths do not rejoin / outside the subset)")
		return false, false
	}
	x.note("helper without contract executed in place: " + funcKey(fn))
	if len(caps) == 0 {
		// every path of the helper ends in a panic: the call does not return
		s.dead = true
		return true, false
	}
	st := caps[0].s
	names, defers := s.names, s.defers
	*s = *st
	s.names, s.defers = names, defers
	s.arrPred, s.mergedAtStop = nil, false
	vals := caps[0].vals
	switch {
	case result == nil || len(vals) == 0:
	case len(vals) == 1:
		x.setResult(s, result, vals[0])
	default:
		x.setResult(s, result, Value{T: result.Type(), F: vals})
	}
	return true, true
}
