package main

// Contract files: //@ lines in zz_verif_contracts.go files in /repo packages
// (behind the build tag "verif") and in /verif/trusted/*.contracts for
// dependencies (assumed, never verified).

import (
	"fmt"
	"go/ast"
	"go/parser"
	"os"
	"path/filepath"
	"regexp"
	"sort"
	"strconv"
	"strings"
)

type Clause struct {
	Label  string
	Src    string
	Expr   ast.Expr
	Line   string   // file:line
	Forall []AnyVar // top-level universal quantifier: "forall k T, j U :: body"
	Local  bool     // ensures-local: checked in the function, not assumed by callers
}

type AnyVar struct {
	Name string
	Type string // Go type expression text
}

type LoopSpec struct {
	Invariants []Clause
	Decreases  *Clause
	Modifies   []Clause
	ModNothing bool
	HasMod     bool
}

type Contract struct {
	Pkg        string // package path
	Name       string // function name relative to its package
	Trusted    bool   // assumed: external or not verifiable
	ReturnsClosure bool // the body only builds one closure over its parameters and returns it
	Tolerates  []string // call sites whose reported error is tolerated by design (errdrop obligations)
	Unchecked  []string // implicit obligations (kind@site) the contract declares out of reach: assumed, reported
	Any        []AnyVar
	Requires   []Clause
	Ensures    []Clause
	Modifies   []Clause
	ModNothing bool
	HasMod     bool
	Loops      map[int]*LoopSpec
	Ghost      []Clause // ghost updates performed by a trusted function: "ghost x = e"
	AtGhost    map[string][]Clause // site -> ghost assignments executed just before the site
	Options    map[string]string
	Assumed    []Clause            // postconditions assumed at call sites but not proved (definitional axioms): "ensures-assumed"
	Model      []Clause            // extra entry-state expressions reported in counterexample models: "model <expr>"
	At         map[string][]Clause // assertions checked right before a call site: "at <site> assert <expr>"
	File       string
	Used       bool
}

type Spec struct {
	Pkg    string
	Name   string
	Params []AnyVar
	Result string
	Body   ast.Expr
	Src    string
}

type Lemma struct {
	Pkg    string
	Name   string
	Vars   []AnyVar
	Assume []Clause
	Body   Clause
	File   string
}

type UFunc struct {
	Name    string
	Result  string
	Pkg     string
	Witness bool // "ufunc f(..) int witness": applications inside an instantiated universal become instantiation candidates themselves (skolem functions of existentials)
}

type GlobalDecl struct {
	Pkg, Name string
	NonNil    bool
}

type ContractDB struct {
	Funcs   map[string]*Contract // key: pkgpath + "." + name
	Specs   map[string]*Spec     // key: name (global namespace; pkg-qualified lookups fall back)
	Lemmas  map[string]*Lemma
	Globals map[string]*GlobalDecl
	Ghosts  map[string]AnyVar // ghost globals: name -> type
	UFuncs  map[string]*UFunc
	Axioms  map[string][]Clause // package path -> definitional axioms of spec-level functions (assumed)
	GhostTypes map[string]string // name -> struct type source
	GhostTypeOrder []string
	Errors  []string
}

func newDB() *ContractDB {
	return &ContractDB{Funcs: map[string]*Contract{}, Specs: map[string]*Spec{}, Lemmas: map[string]*Lemma{},
		Globals: map[string]*GlobalDecl{}, Ghosts: map[string]AnyVar{}, UFuncs: map[string]*UFunc{}, GhostTypes: map[string]string{}, Axioms: map[string][]Clause{}}
}

var reDirective = regexp.MustCompile(`^//\s?@(.*)$`)
var reLabel = regexp.MustCompile(`^([A-Za-z0-9_\-#./]+):\s+(.*)$`)

var keywords = map[string]bool{"func": true, "any": true, "requires": true, "ensures": true, "modifies": true,
	"loop": true, "trusted": true, "spec": true, "lemma": true, "assume": true, "show": true, "package": true,
	"global": true, "ghost": true, "option": true, "pure": true, "ghostvar": true, "ufunc": true, "ghosttype": true, "at": true, "model": true, "ensures-assumed": true, "ensures-local": true, "axiom": true, "returns-closure": true, "unchecked": true, "tolerates": true}

func (db *ContractDB) errf(format string, a ...interface{}) {
	db.Errors = append(db.Errors, fmt.Sprintf(format, a...))
}

func parseExprSrc(src string) (ast.Expr, error) {
	return parser.ParseExpr(src)
}

func (db *ContractDB) clause(src, where string) Clause {
	c := Clause{Line: where}
	src = strings.TrimSpace(src)
	if m := reLabel.FindStringSubmatch(src); m != nil {
		c.Label = m[1]
		src = m[2]
	}
	c.Src = src
	if strings.HasPrefix(src, "forall ") {
		k := strings.Index(src, "::")
		if k < 0 {
			db.errf("%s: forall without ::", where)
		} else {
			for _, d := range splitTop(src[len("forall "):k]) {
				f := strings.SplitN(strings.TrimSpace(d), " ", 2)
				if len(f) != 2 {
					db.errf("%s: forall variable %q needs a type", where, d)
					continue
				}
				c.Forall = append(c.Forall, AnyVar{f[0], strings.TrimSpace(f[1])})
			}
			src = strings.TrimSpace(src[k+2:])
		}
	}
	e, err := parseExprSrc(src)
	if err != nil {
		db.errf("%s: cannot parse %q: %v", where, src, err)
	}
	c.Expr = e
	return c
}

// loadFile reads the //@ directives of one file. defaultPkg is the package
// path the directives belong to unless a "package" directive overrides it.
func (db *ContractDB) loadFile(path, defaultPkg string) {
	data, err := os.ReadFile(path)
	if err != nil {
		db.errf("read %s: %v", path, err)
		return
	}
	pkg := defaultPkg
	type dir struct {
		kw, rest string
		line     int
	}
	var dirs []dir
	for i, ln := range strings.Split(string(data), "\n") {
		t := strings.TrimSpace(ln)
		var body string
		if strings.HasSuffix(path, ".contracts") {
			if strings.HasPrefix(t, "#") || t == "" {
				continue
			}
			body = t
		} else {
			m := reDirective.FindStringSubmatch(t)
			if m == nil {
				continue
			}
			body = strings.TrimSpace(m[1])
		}
		if body == "" || strings.HasPrefix(body, "//") {
			continue
		}
		if k := strings.Index(body, " //"); k >= 0 && !strings.Contains(body[:k], "\"") {
			body = strings.TrimSpace(body[:k])
		}
		fields := strings.Fields(body)
		kw := fields[0]
		if !keywords[kw] {
			if len(dirs) == 0 {
				db.errf("%s:%d: continuation without directive", path, i+1)
				continue
			}
			dirs[len(dirs)-1].rest += " " + body
			continue
		}
		dirs = append(dirs, dir{kw, strings.TrimSpace(body[len(kw):]), i + 1})
	}
	var cur *Contract
	var curLemma *Lemma
	for _, d := range dirs {
		where := fmt.Sprintf("%s:%d", filepath.Base(path), d.line)
		switch d.kw {
		case "package":
			pkg = d.rest
			cur, curLemma = nil, nil
		case "func":
			name := d.rest
			cur = &Contract{Pkg: pkg, Name: name, Loops: map[int]*LoopSpec{}, Options: map[string]string{}, At: map[string][]Clause{}, File: where}
			curLemma = nil
			key := pkg + "." + name
			if _, dup := db.Funcs[key]; dup {
				db.errf("%s: duplicate contract for %s", where, key)
			}
			db.Funcs[key] = cur
		case "model":
			if cur != nil {
				for _, part := range splitTop(d.rest) {
					cur.Model = append(cur.Model, db.clause(part, where))
				}
			}
		case "at":
			if cur != nil {
				if g := strings.Index(d.rest, " ghost "); g >= 0 && !strings.Contains(d.rest[:g], " assert ") {
					// at <site> ghost <var> = <expr>: ghost assignment executed just before the site
					site := strings.TrimSpace(d.rest[:g])
					rest := d.rest[g+len(" ghost "):]
					e := strings.Index(rest, "=")
					if e < 0 {
						db.errf("%s: at <site> ghost g = e", where)
						continue
					}
					c := db.clause(strings.TrimSpace(rest[e+1:]), where)
					c.Label = strings.TrimSpace(rest[:e])
					if cur.AtGhost == nil {
						cur.AtGhost = map[string][]Clause{}
					}
					cur.AtGhost[site] = append(cur.AtGhost[site], c)
					continue
				}
				k := strings.Index(d.rest, " assert ")
				if k < 0 {
					db.errf("%s: at <site> assert <expr>", where)
					continue
				}
				site := strings.TrimSpace(d.rest[:k])
				cur.At[site] = append(cur.At[site], db.clause(d.rest[k+len(" assert "):], where))
			}
		case "trusted":
			if cur != nil {
				cur.Trusted = true
			}
		case "pure":
			if cur != nil {
				cur.ModNothing, cur.HasMod = true, true
			}
		case "tolerates":
			if cur != nil {
				cur.Tolerates = append(cur.Tolerates, strings.TrimSpace(strings.SplitN(d.rest, "//", 2)[0]))
			}
		case "unchecked":
			if cur != nil {
				cur.Unchecked = append(cur.Unchecked, strings.TrimSpace(strings.SplitN(d.rest, "//", 2)[0]))
			}
		case "returns-closure":
			if cur != nil {
				cur.ReturnsClosure = true
				cur.ModNothing, cur.HasMod = true, true
			}
		case "option":
			if cur != nil {
				f := strings.SplitN(d.rest, " ", 2)
				v := ""
				if len(f) > 1 {
					v = f[1]
				}
				cur.Options[f[0]] = v
			}
		case "any":
			f := strings.SplitN(d.rest, " ", 2)
			if len(f) != 2 {
				db.errf("%s: any <name> <type>", where)
				continue
			}
			av := AnyVar{f[0], strings.TrimSpace(f[1])}
			if curLemma != nil {
				curLemma.Vars = append(curLemma.Vars, av)
			} else if cur != nil {
				cur.Any = append(cur.Any, av)
			}
		case "requires":
			if cur != nil {
				cur.Requires = append(cur.Requires, db.clause(d.rest, where))
			}
		case "ensures":
			if cur != nil {
				cur.Ensures = append(cur.Ensures, db.clause(d.rest, where))
			}
		case "ensures-local":
			// checked at every return like an ensures clause, but may mention the
			// function's local variables (their final values) and is therefore not
			// part of what callers learn
			if cur != nil {
				c := db.clause(d.rest, where)
				c.Local = true
				cur.Ensures = append(cur.Ensures, c)
			}
		case "ensures-assumed":
			if cur != nil {
				cur.Assumed = append(cur.Assumed, db.clause(d.rest, where))
			}
		case "ghost":
			if cur != nil {
				// ghost <lhs> = <expr> ; stored as label=lhs, expr
				k := strings.Index(d.rest, "=")
				if k < 0 {
					db.errf("%s: ghost x = e", where)
					continue
				}
				c := db.clause(strings.TrimSpace(d.rest[k+1:]), where)
				c.Label = strings.TrimSpace(d.rest[:k])
				cur.Ghost = append(cur.Ghost, c)
			}
		case "ufunc":
			// ufunc name(...) R  -- uninterpreted function; argument sorts come from the call
			k := strings.Index(d.rest, "(")
			e := strings.LastIndex(d.rest, ")")
			if k < 0 || e < 0 {
				db.errf("%s: ufunc name(args) R", where)
				continue
			}
			n := strings.TrimSpace(d.rest[:k])
			res := strings.TrimSpace(d.rest[e+1:])
			wit := false
			if strings.HasSuffix(res, " witness") {
				wit = true
				res = strings.TrimSpace(strings.TrimSuffix(res, " witness"))
			}
			db.UFuncs[n] = &UFunc{Name: n, Result: res, Pkg: pkg, Witness: wit}
		case "ghosttype":
			f := strings.SplitN(d.rest, " ", 2)
			if len(f) == 2 {
				if _, dup := db.GhostTypes[f[0]]; !dup {
					db.GhostTypeOrder = append(db.GhostTypeOrder, f[0])
				}
				db.GhostTypes[f[0]] = strings.TrimSpace(f[1])
			}
		case "axiom":
			db.Axioms[pkg] = append(db.Axioms[pkg], db.clause(d.rest, where))
			cur, curLemma = nil, nil
		case "ghostvar":
			f := strings.SplitN(d.rest, " ", 2)
			if len(f) == 2 {
				db.Ghosts[f[0]] = AnyVar{f[0], strings.TrimSpace(f[1])}
			}
		case "modifies":
			if cur == nil {
				continue
			}
			cur.HasMod = true
			if d.rest == "nothing" {
				cur.ModNothing = true
				continue
			}
			for _, part := range splitTop(d.rest) {
				cur.Modifies = append(cur.Modifies, db.clause(part, where))
			}
		case "loop":
			if cur == nil {
				continue
			}
			f := strings.SplitN(d.rest, " ", 3)
			if len(f) < 3 {
				db.errf("%s: loop <n> invariant|decreases|modifies <expr>", where)
				continue
			}
			n, err := strconv.Atoi(f[0])
			if err != nil {
				db.errf("%s: loop ordinal: %v", where, err)
				continue
			}
			ls := cur.Loops[n]
			if ls == nil {
				ls = &LoopSpec{}
				cur.Loops[n] = ls
			}
			switch f[1] {
			case "invariant":
				ls.Invariants = append(ls.Invariants, db.clause(f[2], where))
			case "decreases":
				c := db.clause(f[2], where)
				ls.Decreases = &c
			case "modifies":
				ls.HasMod = true
				if strings.TrimSpace(f[2]) == "nothing" {
					ls.ModNothing = true
				} else {
					for _, part := range splitTop(f[2]) {
						ls.Modifies = append(ls.Modifies, db.clause(part, where))
					}
				}
			default:
				db.errf("%s: unknown loop clause %s", where, f[1])
			}
		case "spec":
			// spec name(a T, b U) R = expr
			sp, err := parseSpec(d.rest)
			if err != nil {
				db.errf("%s: %v", where, err)
				continue
			}
			sp.Pkg = pkg
			db.Specs[sp.Name] = sp
			cur, curLemma = nil, nil
		case "lemma":
			curLemma = &Lemma{Pkg: pkg, Name: strings.TrimSpace(d.rest), File: where}
			cur = nil
			db.Lemmas[curLemma.Name] = curLemma
		case "assume":
			if curLemma != nil {
				curLemma.Assume = append(curLemma.Assume, db.clause(d.rest, where))
			}
		case "show":
			if curLemma != nil {
				curLemma.Body = db.clause(d.rest, where)
			}
		case "global":
			f := strings.Fields(d.rest)
			g := &GlobalDecl{Pkg: pkg, Name: f[0]}
			for _, o := range f[1:] {
				if o == "nonnil" {
					g.NonNil = true
				}
			}
			db.Globals[pkg+"."+f[0]] = g
		}
	}
}

func splitTop(s string) []string {
	var out []string
	depth := 0
	start := 0
	for i := 0; i < len(s); i++ {
		switch s[i] {
		case '(', '[', '{':
			depth++
		case ')', ']', '}':
			depth--
		case ',':
			if depth == 0 {
				out = append(out, strings.TrimSpace(s[start:i]))
				start = i + 1
			}
		}
	}
	if t := strings.TrimSpace(s[start:]); t != "" {
		out = append(out, t)
	}
	return out
}

func parseSpec(s string) (*Spec, error) {
	k := strings.Index(s, "(")
	if k < 0 {
		return nil, fmt.Errorf("spec: missing (")
	}
	name := strings.TrimSpace(s[:k])
	depth := 0
	end := -1
	for i := k; i < len(s); i++ {
		if s[i] == '(' {
			depth++
		} else if s[i] == ')' {
			depth--
			if depth == 0 {
				end = i
				break
			}
		}
	}
	if end < 0 {
		return nil, fmt.Errorf("spec %s: unbalanced", name)
	}
	sp := &Spec{Name: name, Src: s}
	for _, p := range splitTop(s[k+1 : end]) {
		f := strings.SplitN(strings.TrimSpace(p), " ", 2)
		if len(f) != 2 {
			return nil, fmt.Errorf("spec %s: parameter %q needs a type", name, p)
		}
		sp.Params = append(sp.Params, AnyVar{f[0], strings.TrimSpace(f[1])})
	}
	rest := s[end+1:]
	e := strings.Index(rest, "=")
	if e < 0 {
		return nil, fmt.Errorf("spec %s: missing =", name)
	}
	sp.Result = strings.TrimSpace(rest[:e])
	body, err := parseExprSrc(strings.TrimSpace(rest[e+1:]))
	if err != nil {
		return nil, fmt.Errorf("spec %s: %v", name, err)
	}
	sp.Body = body
	return sp, nil
}

func (db *ContractDB) sortedFuncKeys() []string {
	var ks []string
	for k := range db.Funcs {
		ks = append(ks, k)
	}
	sort.Strings(ks)
	return ks
}
