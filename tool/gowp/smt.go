package main

// SMT-LIB term construction (plain strings) and the solver portfolio.

import (
	"bytes"
	"context"
	"fmt"
	"os"
	"os/exec"
	"path/filepath"
	"sort"
	"strings"
	"sync"
	"time"
)

const (
	sBool = "Bool"
	sInt  = "Int"
	sFP   = "(_ FloatingPoint 11 53)"
	sStr  = "String"
)

func arrSort(idx, el string) string { return "(Array " + idx + " " + el + ")" }

func app(f string, args ...string) string {
	return "(" + f + " " + strings.Join(args, " ") + ")"
}
func and(xs ...string) string {
	var ys []string
	for _, x := range xs {
		if x == "true" {
			continue
		}
		if x == "false" {
			return "false"
		}
		ys = append(ys, x)
	}
	switch len(ys) {
	case 0:
		return "true"
	case 1:
		return ys[0]
	}
	return app("and", ys...)
}
func or(xs ...string) string {
	var ys []string
	for _, x := range xs {
		if x == "false" {
			continue
		}
		if x == "true" {
			return "true"
		}
		ys = append(ys, x)
	}
	switch len(ys) {
	case 0:
		return "false"
	case 1:
		return ys[0]
	}
	return app("or", ys...)
}
func not(x string) string {
	if x == "true" {
		return "false"
	}
	if x == "false" {
		return "true"
	}
	if strings.HasPrefix(x, "(not ") {
		return x[5 : len(x)-1]
	}
	return app("not", x)
}
func imp(a, b string) string {
	if a == "true" {
		return b
	}
	if a == "false" || b == "true" {
		return "true"
	}
	return app("=>", a, b)
}
func eq(a, b string) string {
	if a == b {
		return "true"
	}
	return app("=", a, b)
}
func ite(c, a, b string) string {
	if c == "true" {
		return a
	}
	if c == "false" {
		return b
	}
	if a == b {
		return a
	}
	return app("ite", c, a, b)
}
func sel(a, i string) string       { return app("select", a, i) }
func sto(a, i, v string) string    { return app("store", a, i, v) }
func intLit(n int64) string {
	if n < 0 {
		return fmt.Sprintf("(- %d)", -n) // careful with MinInt64: handled by bigLit
	}
	return fmt.Sprintf("%d", n)
}
func bigLit(s string) string { // decimal string, possibly negative
	if strings.HasPrefix(s, "-") {
		return "(- " + s[1:] + ")"
	}
	return s
}
func strLit(s string) string {
	var b strings.Builder
	b.WriteByte('"')
	for _, c := range []byte(s) {
		switch {
		case c == '"':
			b.WriteString(`""`)
		case c < 32 || c > 126 || c == '\\':
			fmt.Fprintf(&b, `\u{%x}`, c)
		default:
			b.WriteByte(c)
		}
	}
	b.WriteByte('"')
	return b.String()
}

// ---------------------------------------------------------------------------
// Scripts: a path produces a list of events; the script replays them with
// push/pop around every check so that one solver process decides a whole path.

type evKind int

const (
	evAssume evKind = iota
	evCheck
	evCover // reachability probe: (check-sat) of the current context, expected sat
)

type event struct {
	kind evKind
	term string
	ob   *Oblig // for evCheck / evCover
}

// Oblig is one proof obligation instance on one path.
type Oblig struct {
	ID     string   // stable id: func/kind@site
	Func   string   // function (or lemma) it belongs to
	Kind   string   // post, pre, inv-init, inv-pres, decreases, frame, nil, bounds, typeassert, panic, div, lemma, cover...
	Desc   string   // human text: the clause / site
	Pos    string   // source position (informational only)
	Path   int      // path number within the function
	Values []string // terms whose model values are requested on failure
	Names  []string // display names for Values
}

type Result struct {
	Ob      *Oblig
	Status  string // "unsat" (discharged), "sat" (refuted), "unknown", "timeout", "error"
	Solver  string
	TimeS   float64
	Model   map[string]string
	RawTail string
}

type Script struct {
	decls  map[string]string // symbol -> full declaration command
	order  []string
	events []event
}

func newScript() *Script { return &Script{decls: map[string]string{}} }

func (s *Script) declare(sym, cmd string) {
	if _, ok := s.decls[sym]; ok {
		return
	}
	s.decls[sym] = cmd
	s.order = append(s.order, sym)
}

const preludeCommon = `(set-option :produce-models true)
(set-logic ALL)
`

// render produces the SMT text. If only >= 0, only the check with that ordinal
// (among evCheck/evCover events) is performed (standalone query for the
// portfolio); earlier checks are turned into assumptions as in the full run.
func (s *Script) render(decls []string, only int, incremental bool) string {
	var b bytes.Buffer
	b.WriteString(preludeCommon)
	for _, d := range decls {
		b.WriteString(d)
		b.WriteByte('\n')
	}
	n := 0
	for _, e := range s.events {
		switch e.kind {
		case evAssume:
			fmt.Fprintf(&b, "(assert %s)\n", e.term)
		case evCheck, evCover:
			do := only < 0 || only == n
			if do {
				if incremental {
					b.WriteString("(push 1)\n")
				}
				fmt.Fprintf(&b, "; ob %s\n", e.ob.ID)
				if e.kind == evCheck {
					fmt.Fprintf(&b, "(assert (not %s))\n", e.term)
				} else if e.term != "" && e.term != "true" {
					fmt.Fprintf(&b, "(assert %s)\n", e.term) // guarded reachability probe
				}
				fmt.Fprintf(&b, "(echo \"@@check %d\")\n(check-sat)\n", n)
				if e.kind == evCheck && len(e.ob.Values) > 0 {
					fmt.Fprintf(&b, "(echo \"@@model %d\")\n(get-value (%s))\n", n, strings.Join(e.ob.Values, " "))
				}
				fmt.Fprintf(&b, "(echo \"@@end %d\")\n", n)
				if incremental {
					b.WriteString("(pop 1)\n")
				}
			}
			if only >= 0 && only == n {
				return b.String()
			}
			// a checked condition is assumed afterwards — except for frame
			// obligations (checked as the literal false): assuming those would
			// make the rest of the path vacuous and hide the obligations the
			// offending write goes on to break
			if e.kind == evCheck && e.ob.Kind != "frame" && e.ob.Kind != "nocontract" {
				fmt.Fprintf(&b, "(assert %s)\n", e.term)
			}
			n++
		}
	}
	return b.String()
}

type solverSpec struct {
	name string
	args func(file string, toMS int, incremental bool) []string
}

var solvers = []solverSpec{
	{"z3-new", func(f string, ms int, inc bool) []string {
		return []string{"z3-new", fmt.Sprintf("-t:%d", ms), f}
	}},
	{"z3", func(f string, ms int, inc bool) []string {
		return []string{"z3", fmt.Sprintf("-t:%d", ms), f}
	}},
	{"cvc5", func(f string, ms int, inc bool) []string {
		a := []string{"cvc5", fmt.Sprintf("--tlimit-per=%d", ms), "--strings-exp", "--fp-exp"}
		if inc {
			a = append(a, "--incremental")
		}
		return append(a, f)
	}},
}

var (
	scratchDir  string
	scratchOnce sync.Once
	fileCtr     int
	fileMu      sync.Mutex
	solverSem   = make(chan struct{}, 14)
)

func scratch() string {
	scratchOnce.Do(func() {
		d, err := os.MkdirTemp("", "gowp")
		if err != nil {
			panic(err)
		}
		scratchDir = d
	})
	return scratchDir
}

func writeTemp(text string) string {
	fileMu.Lock()
	fileCtr++
	n := fileCtr
	fileMu.Unlock()
	p := filepath.Join(scratch(), fmt.Sprintf("q%06d.smt2", n))
	if err := os.WriteFile(p, []byte(text), 0o644); err != nil {
		panic(err)
	}
	return p
}

func runSolver(sp solverSpec, text string, toMS int, incremental bool, wall time.Duration) (string, float64) {
	solverSem <- struct{}{}
	defer func() { <-solverSem }()
	f := writeTemp(text)
	defer os.Remove(f)
	args := sp.args(f, toMS, incremental)
	ctx, cancel := context.WithTimeout(context.Background(), wall)
	defer cancel()
	t0 := time.Now()
	cmd := exec.CommandContext(ctx, args[0], args[1:]...)
	var out bytes.Buffer
	cmd.Stdout = &out
	cmd.Stderr = &out
	_ = cmd.Run()
	return out.String(), time.Since(t0).Seconds()
}

// parseOutput splits a solver transcript into per-check answers.
func parseOutput(out string) map[int][2]string { // n -> (status, model text)
	res := map[int][2]string{}
	lines := strings.Split(out, "\n")
	cur := -1
	mode := ""
	var status string
	var model []string
	flush := func() {
		if cur >= 0 {
			res[cur] = [2]string{status, strings.Join(model, "\n")}
		}
	}
	for _, ln := range lines {
		l := strings.TrimSpace(strings.Trim(ln, "\""))
		if strings.HasPrefix(l, "@@check ") {
			flush()
			fmt.Sscanf(l, "@@check %d", &cur)
			mode = "status"
			status = ""
			model = nil
			continue
		}
		if strings.HasPrefix(l, "@@model ") {
			mode = "model"
			continue
		}
		if strings.HasPrefix(l, "@@end ") {
			flush()
			cur = -1
			mode = ""
			continue
		}
		switch mode {
		case "status":
			if status == "" && l != "" {
				status = l
			}
		case "model":
			model = append(model, ln)
		}
	}
	flush()
	return res
}

// parseModel turns a (get-value ...) answer into term -> value for the
// requested terms (in order).
func parseModel(text string, terms []string) map[string]string {
	m := map[string]string{}
	text = strings.TrimSpace(text)
	if !strings.HasPrefix(text, "(") || strings.HasPrefix(text, "(error") {
		return m
	}
	// split top-level list of pairs
	depth := 0
	start := -1
	var pairs []string
	inStr := false
	for i := 0; i < len(text); i++ {
		c := text[i]
		if inStr {
			if c == '"' {
				inStr = false
			}
			continue
		}
		switch c {
		case '"':
			inStr = true
		case '(':
			depth++
			if depth == 2 {
				start = i
			}
		case ')':
			if depth == 2 && start >= 0 {
				pairs = append(pairs, text[start:i+1])
				start = -1
			}
			depth--
		}
	}
	for i, p := range pairs {
		if i >= len(terms) {
			break
		}
		body := strings.TrimSpace(p[1 : len(p)-1])
		t := terms[i]
		// the value is what follows the echoed term
		nt := normSpace(t)
		nb := normSpace(body)
		if strings.HasPrefix(nb, nt) {
			m[t] = strings.TrimSpace(nb[len(nt):])
		} else {
			// fall back: last s-expr
			m[t] = lastSexpr(nb)
		}
	}
	return m
}

func normSpace(s string) string { return strings.Join(strings.Fields(s), " ") }

func lastSexpr(s string) string {
	s = strings.TrimSpace(s)
	if s == "" {
		return s
	}
	if s[len(s)-1] != ')' {
		i := strings.LastIndexAny(s, " \t")
		return s[i+1:]
	}
	depth := 0
	for i := len(s) - 1; i >= 0; i-- {
		switch s[i] {
		case ')':
			depth++
		case '(':
			depth--
			if depth == 0 {
				return s[i:]
			}
		}
	}
	return s
}

// solve decides every check of a script. First a single incremental z3-new
// run; anything not decided is re-run stand-alone on all solvers in parallel.
func (s *Script) solve(toMS int) []Result {
	var checks []*event
	for i := range s.events {
		if s.events[i].kind != evAssume {
			checks = append(checks, &s.events[i])
		}
	}
	if len(checks) == 0 {
		return nil
	}
	decls := make([]string, 0, len(s.order))
	for _, sym := range s.order {
		decls = append(decls, s.decls[sym])
	}
	results := make([]Result, len(checks))
	text := s.render(decls, -1, true)
	wall := time.Duration(toMS*len(checks)+5000) * time.Millisecond
	out, secs := runSolver(solvers[0], text, toMS, true, wall)
	per := parseOutput(out)
	var redo []int
	for i, e := range checks {
		r := Result{Ob: e.ob, Solver: solvers[0].name, TimeS: secs / float64(len(checks))}
		a, ok := per[i]
		st := "unknown"
		if ok {
			st = a[0]
		}
		switch st {
		case "unsat", "sat":
			r.Status = st
			if st == "sat" && e.kind == evCheck {
				r.Model = parseModel(a[1], e.ob.Values)
			}
		default:
			r.Status = "unknown"
			r.RawTail = tail(out, 400)
			// an unsettled reachability probe is not an alarm (check.go): the
			// quick tier does not spend three more solver runs on it
			if e.kind == evCover && toMS <= 20000 {
				break
			}
			redo = append(redo, i)
		}
		results[i] = r
	}
	var wg sync.WaitGroup
	for _, i := range redo {
		wg.Add(1)
		go func(i int) {
			defer wg.Done()
			e := checks[i]
			one := s.render(decls, i, false)
			// the stand-alone retry gets three times the budget: an obligation that
			// the incremental run could not settle in time (a loaded machine, an
			// unlucky search) is only reported after a real second attempt
			toMS := toMS
			if e.kind == evCheck {
				toMS *= 3
			}
			type ans struct {
				st, model, solver, raw string
				secs                   float64
			}
			ch := make(chan ans, len(solvers))
			for _, sp := range solvers {
				go func(sp solverSpec) {
					out, secs := runSolver(sp, one, toMS, false, time.Duration(toMS+3000)*time.Millisecond)
					per := parseOutput(out)
					a := per[i]
					ch <- ans{a[0], a[1], sp.name, tail(out, 300), secs}
				}(sp)
			}
			var got []ans
			for range solvers {
				a := <-ch
				got = append(got, a)
			}
			sort.Slice(got, func(x, y int) bool { return got[x].secs < got[y].secs })
			var sat, unsat *ans
			for k := range got {
				switch got[k].st {
				case "sat":
					if sat == nil {
						sat = &got[k]
					}
				case "unsat":
					if unsat == nil {
						unsat = &got[k]
					}
				}
			}
			r := &results[i]
			switch {
			case sat != nil && unsat != nil:
				r.Status = "unknown"
				r.RawTail = "solver disagreement: " + sat.solver + " sat, " + unsat.solver + " unsat"
			case unsat != nil:
				r.Status, r.Solver, r.TimeS = "unsat", unsat.solver, unsat.secs
			case sat != nil:
				r.Status, r.Solver, r.TimeS = "sat", sat.solver, sat.secs
				if e.kind == evCheck {
					r.Model = parseModel(sat.model, e.ob.Values)
				}
			default:
				r.Status = "unknown"
				r.Solver = "all"
				r.TimeS = got[len(got)-1].secs
				var raws []string
				for _, g := range got {
					raws = append(raws, g.solver+": "+g.raw)
				}
				r.RawTail = strings.Join(raws, " | ")
			}
		}(i)
	}
	wg.Wait()
	return results
}

func tail(s string, n int) string {
	s = strings.TrimSpace(s)
	if len(s) > n {
		s = s[len(s)-n:]
	}
	return s
}
