package main

// The per-property check driver: gowp check <Cxx> <quick|thorough>

import (
	"golang.org/x/tools/go/ssa"
	"encoding/json"
	"fmt"
	"os"
	"os/exec"
	"path/filepath"
	"regexp"
	"sort"
	"strconv"
	"strings"
	"sync"
	"time"
)

type PropSpec struct {
	Functions         []string `json:"functions"`
	Lemmas            []string `json:"lemmas"`
	ThoroughFunctions []string `json:"thorough_functions"`
	ThoroughLemmas    []string `json:"thorough_lemmas"`
	Only              []string `json:"only"`    // optional regexps: keep only obligation ids matching one of them
	Exclude           []string `json:"exclude"` // optional regexps: drop matching obligation ids (they belong to another property)
	Bounded           []string `json:"bounded"` // descriptions of bounded stand-ins (thorough tier), never counted as proved
	Lean              string   `json:"lean"`    // optional Lean file re-checked in the thorough tier
	Assumptions       []string `json:"assumptions"`
	NotDecided        []string `json:"not_decided"`
	Mutants           []string `json:"mutants"` // selftest patches expected to be caught (thorough)
	Benign            []string `json:"benign"`  // selftest patches that keep the property (refactorings): must NOT raise an alarm (thorough)
	SMTLemmas         []SMTLemma   `json:"smt_lemmas"`   // lemmas over spec functions stated directly in SMT-LIB (theories the contract language has no syntax for: bit-vectors with floating point)
	BoundedRuns       []BoundedRun `json:"bounded_runs"` // bounded stand-ins run in the thorough tier (never counted as proved)
}

type Finding struct {
	Property   string `json:"property"`
	Obligation string `json:"obligation"`
	What       string `json:"what"`
	Replay     string `json:"replay,omitempty"`
	Status     string `json:"status"` // open | fixed
	Commit     string `json:"commit,omitempty"`
}

type FindingsFile struct {
	Findings []Finding `json:"findings"`
}

func readJSON(path string, v interface{}) error {
	b, err := os.ReadFile(path)
	if err != nil {
		return err
	}
	return json.Unmarshal(b, v)
}

func checkMain(args []string) int {
	verifDir := "/verif"
	repo := "/repo"
	var pos []string
	record := false
	replayPath := ""
	for i := 0; i < len(args); i++ {
		switch args[i] {
		case "--repo":
			i++
			repo = args[i]
		case "--verif":
			i++
			verifDir = args[i]
		case "--record":
			record = true
		case "--replay":
			i++
			replayPath = args[i]
		default:
			pos = append(pos, args[i])
		}
	}
	if replayPath != "" {
		return replayMain(verifDir, repo, replayPath)
	}
	if len(pos) < 1 {
		fmt.Fprintln(os.Stderr, "usage: gowp check <Cxx> [quick|thorough] [--repo dir] [--record]")
		return 2
	}
	prop := pos[0]
	tier := "quick"
	if len(pos) > 1 {
		tier = pos[1]
	}
	if t := os.Getenv("VERIF_TIER"); t != "" && len(pos) < 2 {
		tier = t
	}
	seed := 0
	if s := os.Getenv("VERIF_SEED"); s != "" {
		seed, _ = strconv.Atoi(s)
	}
	t0 := time.Now()
	var props map[string]*PropSpec
	if err := readJSON(filepath.Join(verifDir, "props.json"), &props); err != nil {
		fmt.Fprintln(os.Stderr, "props.json:", err)
		return 2
	}
	ps := props[prop]
	if ps == nil {
		fmt.Fprintln(os.Stderr, "unknown property", prop)
		return 2
	}
	var ff FindingsFile
	_ = readJSON(filepath.Join(verifDir, "known_findings.json"), &ff)

	v, err := loadVerifier(repo, verifDir)
	if err != nil {
		// the tree does not build: nothing can be verified; this is an undischarged run
		fmt.Println("ENGINE: cannot load /repo:", err)
		rp := writeReplay(verifDir, prop, "load", map[string]interface{}{"obligation": "load", "error": err.Error()})
		fmt.Printf("VIOLATION property=%s replay=%s no-failing-input-found\n", prop, rp)
		return 1
	}
	defer os.RemoveAll(scratch())
	timeout := 20000 // obligations claimed in the quick tier discharge in well under a second to a few seconds; the margin is for a loaded machine
	if tier == "thorough" {
		timeout = 120000
	}
	keys := append([]string{}, ps.Functions...)
	lemmas := append([]string{}, ps.Lemmas...)
	if tier == "thorough" {
		keys = append(keys, ps.ThoroughFunctions...)
		lemmas = append(lemmas, ps.ThoroughLemmas...)
	}
	var work []string
	for _, k := range keys {
		work = append(work, expandKey(k))
	}
	// a property also depends on what its functions call: every callee that is
	// itself under a (non-trusted) contract in /repo is verified with it,
	// transitively — at a call site only the callee's contract is used, so a
	// change inside a callee is noticed only if the callee is checked too
	{
		seen := map[string]bool{}
		for _, k := range work {
			seen[k] = true
		}
		queue := append([]string{}, work...)
		for len(queue) > 0 {
			k := queue[0]
			queue = queue[1:]
			fn := v.findFunc(k)
			if fn == nil {
				continue
			}
			var callees []*ssa.Function
			for _, b := range fn.Blocks {
				for _, in := range b.Instrs {
					switch t := in.(type) {
					case ssa.CallInstruction:
						if f := t.Common().StaticCallee(); f != nil {
							callees = append(callees, f)
						}
					case *ssa.MakeClosure:
						if f, ok := t.Fn.(*ssa.Function); ok {
							callees = append(callees, f)
						}
					}
				}
			}
			for _, f := range callees {
				ck := funcKey(f)
				if seen[ck] {
					continue
				}
				seen[ck] = true
				con := v.db.Funcs[ck]
				if con == nil || con.Trusted || len(f.Blocks) == 0 {
					continue
				}
				if !strings.HasPrefix(ck, "github.com/jrhy/s3db") {
					continue
				}
				work = append(work, ck)
				queue = append(queue, ck)
			}
		}
	}
	for _, l := range lemmas {
		work = append(work, "lemma:"+l)
	}
	reps := make([]*FuncReport, len(work))
	var wg sync.WaitGroup
	sem := make(chan struct{}, 6)
	for i, k := range work {
		wg.Add(1)
		go func(i int, k string) {
			defer wg.Done()
			sem <- struct{}{}
			defer func() { <-sem }()
			if strings.HasPrefix(k, "lemma:") {
				reps[i] = v.verifyLemma(k[6:], timeout)
			} else {
				reps[i] = v.verifyFunc(k, timeout, tier)
			}
		}(i, k)
	}
	wg.Wait()

	var only, exclude []*regexp.Regexp
	for _, p := range ps.Only {
		only = append(only, regexp.MustCompile(p))
	}
	for _, p := range ps.Exclude {
		exclude = append(exclude, regexp.MustCompile(p))
	}
	keep := func(id string) bool {
		for _, r := range exclude {
			if r.MatchString(id) {
				return false
			}
		}
		if len(only) == 0 {
			return true
		}
		for _, r := range only {
			if r.MatchString(id) {
				return true
			}
		}
		return false
	}

	type item struct {
		ob  ObReport
		fn  string
	}
	var all []item
	var engineFailures []string
	var notes []string
	var fnames []string
	for _, r := range reps {
		fnames = append(fnames, r.Func)
		if r.Failed != "" {
			engineFailures = append(engineFailures, r.Func+": "+r.Failed)
			all = append(all, item{ObReport{ID: r.Func + "/engine", Kind: "engine", Desc: r.Failed, Status: "undecided", Raw: r.Failed}, r.Func})
		}
		for _, o := range r.Obs {
			if keep(o.ID) {
				all = append(all, item{o, r.Func})
			}
		}
		for _, n := range r.Notes {
			notes = append(notes, r.Func+": "+n)
		}
	}
	for _, e := range v.db.Errors {
		all = append(all, item{ObReport{ID: "contracts/parse", Kind: "engine", Desc: e, Status: "undecided", Raw: e}, "contracts"})
	}
	// registered obligations must still be generated
	regFile := filepath.Join(verifDir, "obligations", prop+"."+tier+".list")
	have := map[string]bool{}
	for _, it := range all {
		have[it.ob.ID] = true
	}
	expectedVacuous := map[string]bool{}
	if record {
		var ids []string
		for _, it := range all {
			if it.ob.Kind == "cover" && it.ob.Status == "vacuous" {
				ids = append(ids, it.ob.ID+"\tvacuous")
			} else {
				ids = append(ids, it.ob.ID)
			}
		}
		sort.Strings(ids)
		os.MkdirAll(filepath.Dir(regFile), 0o755)
		os.WriteFile(regFile, []byte(strings.Join(ids, "\n")+"\n"), 0o644)
	} else {
		// the thorough tier runs everything the quick tier does: its registrations apply too
		var lines []string
		if b, err := os.ReadFile(regFile); err == nil {
			lines = append(lines, strings.Split(strings.TrimSpace(string(b)), "\n")...)
		}
		if tier == "thorough" {
			if b, err := os.ReadFile(filepath.Join(verifDir, "obligations", prop+".quick.list")); err == nil {
				lines = append(lines, strings.Split(strings.TrimSpace(string(b)), "\n")...)
			}
		}
		// whether a return site is unreachable under the contracts is a fact about
		// the function, not the property: registrations of every property count
		if all, _ := filepath.Glob(filepath.Join(verifDir, "obligations", "*.list")); all != nil {
			for _, f := range all {
				if b, err := os.ReadFile(f); err == nil {
					for _, id := range strings.Split(strings.TrimSpace(string(b)), "\n") {
						if strings.HasSuffix(id, "\tvacuous") {
							expectedVacuous[strings.TrimSuffix(id, "\tvacuous")] = true
						}
					}
				}
			}
		}
		for _, id := range lines {
			if strings.HasSuffix(id, "\tvacuous") {
				expectedVacuous[strings.TrimSuffix(id, "\tvacuous")] = true
				continue
			}
			if id != "" && !have[id] && stableID(id) {
				all = append(all, item{ObReport{ID: id, Kind: "missing", Status: "undecided",
					Desc: "registered obligation is no longer generated (the contract no longer binds to the code)"}, ""})
			}
		}
	}

	open := map[string]Finding{}
	// an open finding is a fact about an obligation of the code: whichever property's
	// check meets that obligation (a function can serve several properties, and
	// callees are verified with their callers) reports it as known
	for _, f := range ff.Findings {
		if f.Status == "open" {
			open[f.Obligation] = f
		}
	}
	nOb, nDis, nKnown := 0, 0, 0
	nCoverUndecided := 0
	violations := 0
	var obsOut []map[string]interface{}
	var seenKnown []string
	solverTime := map[string]float64{}
	bySolver := map[string]int{}
	for _, it := range all {
		o := it.ob
		solverTime[o.Solver] += o.TimeS
		entry := map[string]interface{}{"id": o.ID, "kind": o.Kind, "status": o.Status, "solver": o.Solver, "time_s": round3(o.TimeS), "paths": o.Paths}
		if o.Status == "discharged" {
			nOb++
			nDis++
			bySolver[o.Solver]++
			obsOut = append(obsOut, entry)
			continue
		}
		if o.Kind == "cover" && o.Status == "vacuous" && (expectedVacuous[o.ID] || record) {
			// a return site that is unreachable under the contract's precondition on the
			// registered tree (for instance a path the precondition rules out)
			entry["expected_unreachable"] = true
			obsOut = append(obsOut, entry)
			continue
		}
		if o.Kind == "cover" && o.Status == "undecided" {
			// a reachability probe the solvers could not settle within the tier's
			// timeout: no evidence of vacuity (that needs an unsat answer), so it
			// is recorded, not reported; the thorough tier retries with a longer
			// timeout
			entry["reachability_undecided"] = true
			nCoverUndecided++
			obsOut = append(obsOut, entry)
			continue
		}
		if f, ok := open[o.ID]; ok {
			nKnown++
			seenKnown = append(seenKnown, o.ID)
			fmt.Printf("KNOWN-FINDING: property=%s %s %s\n", prop, o.ID, f.What)
			entry["known_finding"] = true
			obsOut = append(obsOut, entry)
			continue
		}
		nOb++
		violations++
		obsOut = append(obsOut, entry)
		payload := map[string]interface{}{"property": prop, "obligation": o.ID, "kind": o.Kind, "clause": o.Desc, "position": o.Pos,
			"status": o.Status, "solver": o.Solver, "model": o.Model, "solver_output": o.Raw, "function": it.fn}
		suffix := " no-failing-input-found"
		if o.Status == "refuted" && o.Model != nil {
			if rr := tryReplay(verifDir, repo, prop, it.fn, o, payload); rr {
				suffix = ""
			}
		}
		rp := writeReplay(verifDir, prop, o.ID, payload)
		fmt.Printf("FAILED %s [%s] %s\n", o.ID, o.Status, o.Desc)
		fmt.Printf("VIOLATION property=%s replay=%s%s\n", prop, rp, suffix)
	}
	if nOb+nKnown == 0 {
		violations++
		rp := writeReplay(verifDir, prop, "vacuous", map[string]interface{}{"obligation": "vacuity", "error": "no obligations generated"})
		fmt.Printf("VIOLATION property=%s replay=%s no-failing-input-found\n", prop, rp)
	}
	// open findings that no longer fail are reported (not an error): the file should be updated
	for id := range open {
		found := false
		for _, s := range seenKnown {
			if s == id {
				found = true
			}
		}
		if !found && have[id] {
			fmt.Printf("NOTE: known finding %s no longer reproduces (obligation discharged)\n", id)
		}
	}

	// thorough adjuncts
	var adjunct []map[string]interface{}
	for _, l := range ps.SMTLemmas {
		st, solver, out, secs := runSMTLemma(verifDir, l, timeout)
		id := "smtlemma:" + l.ID
		entry := map[string]interface{}{"id": id, "kind": "smtlemma", "status": st, "solver": solver, "time_s": round3(secs), "file": l.File}
		obsOut = append(obsOut, entry)
		if st == "discharged" {
			nOb++
			nDis++
			bySolver[solver]++
			continue
		}
		if f, ok := open[id]; ok {
			nKnown++
			seenKnown = append(seenKnown, id)
			fmt.Printf("KNOWN-FINDING: property=%s %s %s\n", prop, id, f.What)
			entry["known_finding"] = true
			continue
		}
		nOb++
		violations++
		payload := map[string]interface{}{"property": prop, "obligation": id, "kind": "smtlemma", "status": st, "solver": solver, "solver_output": tail(out, 1500), "file": l.File}
		suffix := " no-failing-input-found"
		if st == "refuted" && l.Template != "" {
			if tb, err := os.ReadFile(filepath.Join(verifDir, "replay", l.Template)); err == nil {
				ok, rout, src := runReplay(verifDir, repo, string(tb), id, map[string]string{"solver_model": tail(out, 600)})
				payload["replay_test"] = src
				payload["replay_output"] = tail(rout, 1500)
				payload["replay_confirms_violation"] = ok
				if ok {
					suffix = ""
				}
			}
		}
		rp := writeReplay(verifDir, prop, id, payload)
		fmt.Printf("FAILED %s [%s] %s\n", id, st, l.File)
		fmt.Printf("VIOLATION property=%s replay=%s%s\n", prop, rp, suffix)
	}
	for _, br := range ps.BoundedRuns {
		if tier != "thorough" && !br.Quick {
			continue
		}
		res, cases, out := runBounded(verifDir, repo, br)
		adjunct = append(adjunct, res)
		if e, bad := res["error"]; bad {
			violations++
			rp := writeReplay(verifDir, prop, "bounded-"+br.ID, map[string]interface{}{"obligation": "bounded:" + br.ID, "error": e})
			fmt.Printf("VIOLATION property=%s replay=%s no-failing-input-found\n", prop, rp)
			continue
		}
		for _, c := range cases {
			id := "bounded:" + br.ID + "/" + c
			if f, ok := open[id]; ok {
				nKnown++
				seenKnown = append(seenKnown, id)
				fmt.Printf("KNOWN-FINDING: property=%s %s %s\n", prop, id, f.What)
				continue
			}
			violations++
			rp := writeReplay(verifDir, prop, "bounded-"+br.ID+"-"+c, map[string]interface{}{"obligation": id, "bounded": br.Bound, "replay_output": out, "template": br.Template})
			fmt.Printf("FAILED %s [bounded run on the real code] %s\n", id, br.Bound)
			fmt.Printf("VIOLATION property=%s replay=%s\n", prop, rp)
		}
	}
	if tier == "thorough" {
		for _, m := range ps.Mutants {
			res := runMutant(verifDir, repo, prop, m)
			adjunct = append(adjunct, res)
			if caught, _ := res["caught"].(bool); !caught {
				violations++
				rp := writeReplay(verifDir, prop, "selftest-"+m, res)
				fmt.Printf("SELFTEST mutant %s not caught\n", m)
				fmt.Printf("VIOLATION property=%s replay=%s no-failing-input-found\n", prop, rp)
			}
		}
		for _, m := range ps.Benign {
			res := runMutant(verifDir, repo, prop, filepath.Join("selftest", "benign", m))
			res["kind"] = "benign change (must not alarm)"
			caught, _ := res["caught"].(bool)
			stale, _ := res["stale"].(bool)
			res["alarm"] = caught && !stale
			delete(res, "caught")
			adjunct = append(adjunct, res)
			if caught && !stale {
				violations++
				rp := writeReplay(verifDir, prop, "selftest-benign-"+m, res)
				fmt.Printf("SELFTEST benign change %s raised an alarm (%v)\n", m, res["by"])
				fmt.Printf("VIOLATION property=%s replay=%s no-failing-input-found\n", prop, rp)
			}
		}
		if ps.Lean != "" {
			res := runLean(verifDir, ps.Lean)
			adjunct = append(adjunct, res)
			if ok, _ := res["ok"].(bool); !ok {
				violations++
				rp := writeReplay(verifDir, prop, "lean", res)
				fmt.Printf("VIOLATION property=%s replay=%s no-failing-input-found\n", prop, rp)
			}
		}
	}

	// trusted base actually used
	var trusted []string
	for _, k := range v.db.sortedFuncKeys() {
		c := v.db.Funcs[k]
		if c.Trusted && c.Used {
			trusted = append(trusted, "assumed contract: "+k+" ("+c.File+")")
		}
	}
	inRun := map[string]bool{}
	for _, k := range work {
		inRun[k] = true
	}
	for _, k := range v.db.sortedFuncKeys() {
		c := v.db.Funcs[k]
		if !c.Used && !inRun[k] {
			continue // neither verified nor called in this run
		}
		for _, a := range c.Assumed {
			trusted = append(trusted, "assumed clause in the contract of "+k+": "+a.Src)
		}
		for _, u := range c.Unchecked {
			trusted = append(trusted, "implicit obligation declared out of reach (assumed) in the contract of "+k+": "+u)
		}
		for _, u := range c.Tolerates {
			trusted = append(trusted, "error tolerated by design (no errdrop obligation) in the contract of "+k+": "+u)
		}
	}
	for pkg, axs := range v.db.Axioms {
		for _, a := range axs {
			trusted = append(trusted, "definitional axiom ("+pkg+"): "+a.Src)
		}
	}
	for k, d := range modelDocs {
		trusted = append(trusted, "model: "+k+": "+d)
	}
	sort.Strings(trusted)
	trusted = append(trusted, "go/ssa builder and go/types (x/tools v0.29.0); solvers z3 4.8.12, z3 5.1.0, cvc5 1.0.3")
	var unknown []string
	v.unknownCalls.Range(func(k, _ interface{}) bool { unknown = append(unknown, k.(string)); return true })
	sort.Strings(unknown)
	sort.Strings(notes)

	var samples []interface{}
	for i, it := range all {
		if i%maxInt(1, len(all)/3) == 0 && len(samples) < 4 {
			samples = append(samples, map[string]interface{}{"obligation": it.ob.ID, "clause": it.ob.Desc, "status": it.ob.Status, "paths": it.ob.Paths, "solver": it.ob.Solver})
		}
	}
	ev := map[string]interface{}{
		"property_id": prop,
		"tier":        tier,
		"seed":        seed,
		"level":       "proof",
		"wall_s":      round3(time.Since(t0).Seconds()),
		"violations":  violations,
		"coverage": map[string]interface{}{
			"obligations":                nOb,
			"discharged":                 nDis,
			"known_finding_obligations":  nKnown,
			"reachability_probes_undecided": nCoverUndecided,
			"known_findings_seen":        seenKnown,
			"checker_cmd":                fmt.Sprintf("bin/gowp check %s %s (VC generation over go/ssa of /repo's working tree; z3-new incremental per path, undecided checks raced on z3 4.8.12 / z3 5.1.0 / cvc5 1.0.3)", prop, tier),
			"trusted_base":               trusted,
			"functions_under_contract":   fnames,
			"discharged_by_solver":       bySolver,
			"solver_time_s":              roundMap(solverTime),
			"per_obligation":             obsOut,
			"engine_failures":            engineFailures,
			"abstractions_and_notes":     notes,
			"calls_without_contract":     unknown,
			"bounded_standins":           ps.Bounded,
			"not_decided":                ps.NotDecided,
			"adjunct_runs":               adjunct,
			"samples":                    samples,
			"load_ssa_s":                 round3(v.loadS),
			"integer_semantics":          "Go integers are mathematical Int terms wrapped exactly to their machine width at every arithmetic instruction (no idealisation); float64 is SMT FloatingPoint(11,53); time.Time is an unbounded Int of wall-clock nanoseconds",
		},
		"assumptions": append(append([]string{}, ps.Assumptions...), "every assumed contract and model listed in coverage.trusted_base", "request-level atomicity and fail-stop faults of the object store where effect contracts are used"),
	}
	os.MkdirAll(filepath.Join(verifDir, "evidence"), 0o755)
	b, _ := json.MarshalIndent(ev, "", " ")
	os.WriteFile(filepath.Join(verifDir, "evidence", prop+".json"), b, 0o644)
	fmt.Printf("%s %s: %d obligations, %d discharged, %d known findings, %d violations, %.1fs\n", prop, tier, nOb, nDis, nKnown, violations, time.Since(t0).Seconds())
	if violations > 0 {
		return 1
	}
	return 0
}

func maxInt(a, b int) int {
	if a > b {
		return a
	}
	return b
}

func round3(f float64) float64 { return float64(int(f*1000+0.5)) / 1000 }

func roundMap(m map[string]float64) map[string]float64 {
	o := map[string]float64{}
	for k, v := range m {
		if k == "" {
			k = "none"
		}
		o[k] = round3(v)
	}
	return o
}

var reFile = regexp.MustCompile(`[^A-Za-z0-9_.\-]+`)

func writeReplay(verifDir, prop, id string, payload interface{}) string {
	dir := filepath.Join(verifDir, "replays", prop)
	os.MkdirAll(dir, 0o755)
	p := filepath.Join(dir, reFile.ReplaceAllString(id, "_")+".json")
	b, _ := json.MarshalIndent(payload, "", " ")
	os.WriteFile(p, b, 0o644)
	return p
}

// runMutant applies a selftest patch to a scratch copy of the repo and
// expects the property's quick check to report a violation there.
// SMTLemma: a lemma over the spec functions of the contracts, written in
// SMT-LIB because it needs bit-vector / floating-point reasoning the contract
// language does not offer. The file asserts the NEGATION of the lemma; unsat
// discharges it, sat refutes it (the model is the counterexample, replayed on
// the real code through the template when there is one).
type SMTLemma struct {
	ID       string `json:"id"`
	File     string `json:"file"`
	Template string `json:"template"`
}

func runSMTLemma(verifDir string, l SMTLemma, toMS int) (status, solver, out string, secs float64) {
	b, err := os.ReadFile(filepath.Join(verifDir, l.File))
	if err != nil {
		return "undecided", "", err.Error(), 0
	}
	type ans struct {
		st, solver, out string
		secs            float64
	}
	ch := make(chan ans, len(solvers))
	for _, sp := range solvers {
		go func(sp solverSpec) {
			o, secs := runSolver(sp, string(b), toMS, false, time.Duration(toMS+3000)*time.Millisecond)
			first := strings.TrimSpace(strings.SplitN(strings.TrimSpace(o), "\n", 2)[0])
			ch <- ans{first, sp.name, o, secs}
		}(sp)
	}
	status = "undecided"
	for range solvers {
		a := <-ch
		if status == "undecided" && (a.st == "unsat" || a.st == "sat") {
			if a.st == "unsat" {
				status = "discharged"
			} else {
				status = "refuted"
			}
			solver, out, secs = a.solver, a.out, a.secs
		}
	}
	return
}

// BoundedRun: a bounded check of functions the contracts do not reach (or of a
// clause no contract within reach expresses), run on the real code through a
// replay template; labelled bounded, reported separately, never counted as
// proved. The template prints one line "BOUNDED-FAIL <case>: ..." per failing
// case class; a case listed in known_findings.json (obligation
// "bounded:<id>/<case>") is a known finding, any other is a violation.
type BoundedRun struct {
	ID       string `json:"id"`
	Template string `json:"template"`
	Bound    string `json:"bound"`
	Quick    bool   `json:"quick"` // cheap enough for the quick tier as well
}

func runBounded(verifDir, repo string, br BoundedRun) (map[string]interface{}, []string, string) {
	res := map[string]interface{}{"kind": "bounded", "id": br.ID, "bound": br.Bound, "template": br.Template}
	b, err := os.ReadFile(filepath.Join(verifDir, "replay", br.Template))
	if err != nil {
		res["error"] = err.Error()
		return res, nil, err.Error()
	}
	t0 := time.Now()
	_, out, _ := runReplay(verifDir, repo, string(b), "bounded:"+br.ID, map[string]string{})
	res["time_s"] = round3(time.Since(t0).Seconds())
	seen := map[string]bool{}
	var cases []string
	for _, ln := range strings.Split(out, "\n") {
		if strings.HasPrefix(ln, "BOUNDED-FAIL ") {
			c := strings.TrimPrefix(ln, "BOUNDED-FAIL ")
			if k := strings.Index(c, ":"); k > 0 {
				c = c[:k]
			}
			if !seen[c] {
				seen[c] = true
				cases = append(cases, c)
			}
		}
	}
	passed := false // go test prints only the "ok" line for a passing test
	for _, ln := range strings.Split(out, "\n") {
		if strings.HasPrefix(ln, "ok ") || strings.HasPrefix(ln, "ok\t") {
			passed = true
		}
	}
	if strings.Contains(out, "FAIL") || strings.Contains(out, "panic:") {
		passed = false
	}
	if !strings.Contains(out, "BOUNDED-DONE") && !passed {
		res["error"] = "the bounded run did not complete: " + tail(out, 400)
		return res, cases, tail(out, 400)
	}
	res["failing_cases"] = cases
	return res, cases, tail(out, 1200)
}

func runMutant(verifDir, repo, prop, name string) map[string]interface{} {
	res := map[string]interface{}{"kind": "selftest-mutant", "mutant": name, "caught": false}
	patch := filepath.Join(verifDir, "selftest", "mutants", name)
	if _, err := os.Stat(patch); err != nil {
		patch = filepath.Join(verifDir, name)
	}
	tmp, err := os.MkdirTemp("", "gowp-mut")
	if err != nil {
		res["error"] = err.Error()
		return res
	}
	defer os.RemoveAll(tmp)
	dst := filepath.Join(tmp, "repo")
	if out, err := exec.Command("cp", "-r", repo, dst).CombinedOutput(); err != nil {
		res["error"] = string(out)
		return res
	}
	os.RemoveAll(filepath.Join(dst, ".git"))
	cmd := exec.Command("patch", "-p1", "-s", "-i", patch)
	cmd.Dir = dst
	if out, err := cmd.CombinedOutput(); err != nil {
		res["error"] = "patch does not apply: " + string(out)
		// a mutant that no longer applies is reported but is not a property violation
		res["caught"] = true
		res["stale"] = true
		return res
	}
	self, _ := os.Executable()
	tmpVerif := filepath.Join(tmp, "verif")
	os.MkdirAll(tmpVerif, 0o755)
	for _, f := range []string{"props.json", "known_findings.json", "trusted", "obligations", "replay"} {
		exec.Command("cp", "-r", filepath.Join(verifDir, f), filepath.Join(tmpVerif, f)).Run()
	}
	c := exec.Command(self, "check", prop, "quick", "--repo", dst, "--verif", tmpVerif)
	c.Env = append(os.Environ(), "GOWP_NOREPLAY=1")
	out, _ := c.CombinedOutput()
	if strings.Contains(string(out), "VIOLATION property="+prop) {
		res["caught"] = true
		for _, ln := range strings.Split(string(out), "\n") {
			if strings.HasPrefix(ln, "FAILED ") {
				res["by"] = ln
				break
			}
		}
	} else {
		res["output"] = tail(string(out), 600)
	}
	return res
}

func runLean(verifDir, file string) map[string]interface{} {
	res := map[string]interface{}{"kind": "lean", "file": file, "ok": false}
	t0 := time.Now()
	cmd := exec.Command("lean", filepath.Join(verifDir, file))
	cmd.Env = append(os.Environ(), "LEAN_PATH=/opt/veriftools/mathlib4/.lake/build/lib/lean")
	out, err := cmd.CombinedOutput()
	res["time_s"] = round3(time.Since(t0).Seconds())
	if err == nil && !strings.Contains(string(out), "error") && !strings.Contains(string(out), "sorry") {
		res["ok"] = true
	} else {
		res["output"] = tail(string(out), 800)
	}
	return res
}

// stableID: obligations whose identity comes from the contract (clauses,
// invariants, call-site assertions, callee preconditions by clause, lemmas).
// Implicit safety obligations are numbered by their ordinal among the
// function's instructions, which unrelated edits shift; their absence is not
// evidence that a contract stopped binding.
func stableID(id string) bool {
	k := strings.Index(id, "/")
	if k < 0 {
		return true // lemma
	}
	kind := id[k+1:]
	for _, p := range []string{"nil@", "bounds@", "typeassert@", "nilmap@", "div@", "cover@", "panic@", "frame@", "pre@"} {
		if strings.HasPrefix(kind, p) {
			return false
		}
	}
	return true
}
