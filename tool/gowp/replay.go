package main

// Replay of solver models against the real code: a generated test file is
// injected into the function's package with `go test -overlay` (nothing is
// written to /repo).

import (
	"encoding/json"
	"fmt"
	"os"
	"os/exec"
	"path/filepath"
	"strings"
)

// replay templates live in /verif/replay/<sanitized func>.tmpl:
//   line 1: "// package-dir: <relative dir in repo>"
//   rest: a Go test file; {{MODEL}} is replaced by a Go string literal holding the model JSON.
func templateFor(verifDir, fn string) string {
	if strings.HasPrefix(fn, "lemma M-") {
		return filepath.Join(verifDir, "replay", "lemma_M.tmpl")
	}
	p := filepath.Join(verifDir, "replay", reFile.ReplaceAllString(fn, "_")+".tmpl")
	return p
}

func tryReplay(verifDir, repo, prop, fn string, o ObReport, payload map[string]interface{}) bool {
	if os.Getenv("GOWP_NOREPLAY") != "" {
		return false
	}
	tp := templateFor(verifDir, fn)
	// an obligation may have its own template: <function>@<label>.tmpl
	if k := strings.LastIndex(o.ID, "@"); k >= 0 {
		sp := strings.TrimSuffix(tp, ".tmpl") + "@" + reFile.ReplaceAllString(o.ID[k+1:], "_") + ".tmpl"
		if _, err := os.Stat(sp); err == nil {
			tp = sp
		}
	}
	b, err := os.ReadFile(tp)
	if err != nil {
		payload["replay"] = "no replay template for " + fn + ": model attached, not concretised"
		return false
	}
	ok, out, testSrc := runReplay(verifDir, repo, string(b), o.ID, o.Model)
	payload["replay_test"] = testSrc
	payload["replay_output"] = tail(out, 1500)
	payload["replay_confirms_violation"] = ok
	return ok
}

// runReplay returns true when the generated test FAILS on the real code
// (i.e. the counterexample is confirmed).
func runReplay(verifDir, repo, tmpl, obID string, model map[string]string) (bool, string, string) {
	lines := strings.SplitN(tmpl, "\n", 2)
	dir := strings.TrimSpace(strings.TrimPrefix(lines[0], "// package-dir:"))
	mj, _ := json.Marshal(model)
	src := strings.ReplaceAll(tmpl, "{{MODEL}}", fmt.Sprintf("%q", string(mj)))
	src = strings.ReplaceAll(src, "{{OBLIGATION}}", fmt.Sprintf("%q", obID))
	tmp, err := os.MkdirTemp("", "gowp-replay")
	if err != nil {
		return false, err.Error(), src
	}
	defer os.RemoveAll(tmp)
	tf := filepath.Join(tmp, "zz_replay_test.go")
	os.WriteFile(tf, []byte(src), 0o644)
	ov := map[string]map[string]string{"Replace": {filepath.Join(repo, dir, "zz_verif_replay_test.go"): tf}}
	ob, _ := json.Marshal(ov)
	of := filepath.Join(tmp, "overlay.json")
	os.WriteFile(of, ob, 0o644)
	cmd := exec.Command("bash", "-c", fmt.Sprintf("ulimit -v 8000000; cd %s && go test -overlay %s -vet=off -count=1 -timeout 60s -run 'TestVerifReplay' ./%s 2>&1", repo, of, dir))
	cmd.Env = append(os.Environ(), "GOFLAGS=-mod=mod", "GOPROXY=off")
	out, err := cmd.CombinedOutput()
	s := string(out)
	if strings.Contains(s, "REPLAY-VIOLATION") {
		return true, s, src
	}
	return false, s, src
}

func replayMain(verifDir, repo, path string) int {
	var payload map[string]interface{}
	if err := readJSON(path, &payload); err != nil {
		fmt.Fprintln(os.Stderr, err)
		return 2
	}
	b, _ := json.MarshalIndent(payload, "", " ")
	fmt.Println(string(b))
	fn, _ := payload["function"].(string)
	ob, _ := payload["obligation"].(string)
	model := map[string]string{}
	if m, ok := payload["model"].(map[string]interface{}); ok {
		for k, v := range m {
			model[k] = fmt.Sprint(v)
		}
	}
	tb, err := os.ReadFile(templateFor(verifDir, fn))
	if err != nil || len(model) == 0 {
		fmt.Println("no concrete input to replay: the file above names the failed obligation and carries the solver output")
		return 0
	}
	ok, out, _ := runReplay(verifDir, repo, string(tb), ob, model)
	fmt.Println(out)
	if ok {
		fmt.Println("replay: violation reproduced on the real code")
		return 1
	}
	fmt.Println("replay: not reproduced")
	return 0
}
