package main

import (
	"fmt"
	"go/ast"
	"go/token"
	"go/types"
	"os"
	"path/filepath"
	"sort"
	"strings"
	"sync"
	"time"

	"golang.org/x/tools/go/packages"
	"golang.org/x/tools/go/ssa"
	"golang.org/x/tools/go/ssa/ssautil"
)

type Verifier struct {
	prog         *ssa.Program
	pkgs         []*packages.Package
	spkgs        map[string]*ssa.Package
	tpkgs        map[string]*types.Package
	db           *ContractDB
	tags         map[string]int
	tagMu        sync.Mutex
	unknownCalls sync.Map
	strictCalls  bool
	ghostTypes   map[string]types.Type
	timeT        types.Type
	treeT        types.Type
	errTypes     map[string]types.Type
	loadS        float64
	repo         string
	verifDir     string
	infos        map[string]*types.Info // by package path (repository packages)
	inlinableCache sync.Map
}

var repoPkgs = []string{".", "./kv", "./kv/crdt", "./kv/internal/crdt", "./sqlite", "./internal", "./writetime", "./sql/parse"}

func loadVerifier(repo, verifDir string) (*Verifier, error) {
	t0 := time.Now()
	cfg := &packages.Config{Mode: packages.LoadAllSyntax, Dir: repo, BuildFlags: []string{"-tags", "verif"}}
	pkgs, err := packages.Load(cfg, repoPkgs...)
	if err != nil {
		return nil, err
	}
	var errs []string
	packages.Visit(pkgs, nil, func(p *packages.Package) {
		if strings.HasPrefix(p.PkgPath, "github.com/jrhy/s3db") {
			for _, e := range p.Errors {
				errs = append(errs, e.Error())
			}
		}
	})
	if len(errs) > 0 {
		return nil, fmt.Errorf("package errors: %s", strings.Join(errs, "; "))
	}
	prog, _ := ssautil.AllPackages(pkgs, ssa.GlobalDebug)
	prog.Build()
	v := &Verifier{prog: prog, pkgs: pkgs, spkgs: map[string]*ssa.Package{}, tpkgs: map[string]*types.Package{},
		db: newDB(), tags: map[string]int{}, ghostTypes: map[string]types.Type{}, errTypes: map[string]types.Type{},
		repo: repo, verifDir: verifDir}
	v.infos = map[string]*types.Info{}
	for _, p := range pkgs {
		v.infos[p.PkgPath] = p.TypesInfo
	}
	for _, sp := range prog.AllPackages() {
		v.spkgs[sp.Pkg.Path()] = sp
		v.tpkgs[sp.Pkg.Path()] = sp.Pkg
	}
	if tp := v.tpkgs["time"]; tp != nil {
		v.timeT = tp.Scope().Lookup("Time").Type()
	}
	// contracts: in-repo files and trusted files
	for _, p := range pkgs {
		dir := ""
		if len(p.GoFiles) > 0 {
			dir = filepath.Dir(p.GoFiles[0])
		}
		if dir == "" {
			continue
		}
		f := filepath.Join(dir, "zz_verif_contracts.go")
		if _, err := os.Stat(f); err == nil {
			v.db.loadFile(f, p.PkgPath)
		}
	}
	tfiles, _ := filepath.Glob(filepath.Join(verifDir, "trusted", "*.contracts"))
	sort.Strings(tfiles)
	for _, f := range tfiles {
		v.db.loadFile(f, "")
	}
	for _, c := range v.db.Funcs {
		if strings.Contains(c.File, ".contracts:") {
			c.Trusted = true
		}
	}
	v.loadS = time.Since(t0).Seconds()
	// ghost types
	for _, n := range v.db.GhostTypeOrder {
		src := v.db.GhostTypes[n]
		e, err := parseExprSrc(src)
		if err != nil {
			v.db.errf("ghosttype %s: %v", n, err)
			continue
		}
		st, ok := e.(*ast.StructType)
		if !ok {
			v.db.errf("ghosttype %s: struct type expected", n)
			continue
		}
		env := &Env{x: &Exec{v: v}}
		var fields []*types.Var
		func() {
			defer func() {
				if r := recover(); r != nil {
					v.db.errf("ghosttype %s: %v", n, r)
				}
			}()
			for _, f := range st.Fields.List {
				ft := env.resolveType(f.Type)
				for _, name := range f.Names {
					fields = append(fields, types.NewField(token.NoPos, nil, name.Name, ft, false))
				}
			}
		}()
		tn := types.NewTypeName(token.NoPos, nil, n, nil)
		v.ghostTypes[n] = types.NewNamed(tn, types.NewStruct(fields, nil), nil)
	}
	return v, nil
}

func (v *Verifier) typesPkg(path string) *types.Package { return v.tpkgs[path] }

func (v *Verifier) pkgByName(name string) *types.Package {
	var found *types.Package
	for _, p := range v.tpkgs {
		if p.Name() == name {
			if found != nil && !strings.HasPrefix(p.Path(), "github.com/jrhy/s3db") {
				continue
			}
			found = p
		}
	}
	return found
}

func (v *Verifier) ghostType(name string) types.Type { return v.ghostTypes[name] }
func (v *Verifier) timeType() types.Type             { return v.timeT }

func (v *Verifier) errStructType(kind string) types.Type {
	v.tagMu.Lock()
	defer v.tagMu.Unlock()
	if t, ok := v.errTypes[kind]; ok {
		return t
	}
	tn := types.NewTypeName(token.NoPos, nil, "err_"+kind, nil)
	t := types.NewNamed(tn, types.NewStruct(nil, nil), nil)
	v.errTypes[kind] = t
	return t
}

// findFunc resolves "pkgpath.Name" (Name as in the contract files).
func (v *Verifier) findFunc(key string) *ssa.Function {
	for path, sp := range v.spkgs {
		if !strings.HasPrefix(key, path+".") {
			continue
		}
		name := key[len(path)+1:]
		if f := lookupFunc(sp, name); f != nil {
			return f
		}
	}
	return nil
}

func lookupFunc(sp *ssa.Package, name string) *ssa.Function {
	var found *ssa.Function
	var visit func(f *ssa.Function)
	visit = func(f *ssa.Function) {
		if f == nil || found != nil {
			return
		}
		if f.RelString(sp.Pkg) == name {
			found = f
			return
		}
		for _, a := range f.AnonFuncs {
			visit(a)
		}
	}
	for _, m := range sp.Members {
		switch t := m.(type) {
		case *ssa.Function:
			visit(t)
		case *ssa.Type:
			for _, typ := range []types.Type{t.Type(), types.NewPointer(t.Type())} {
				ms := sp.Prog.MethodSets.MethodSet(typ)
				for i := 0; i < ms.Len(); i++ {
					visit(sp.Prog.MethodValue(ms.At(i)))
				}
			}
		}
		if found != nil {
			break
		}
	}
	return found
}

// ---------------------------------------------------------------------------

type ObReport struct {
	ID      string            `json:"id"`
	Kind    string            `json:"kind"`
	Desc    string            `json:"desc"`
	Pos     string            `json:"pos,omitempty"`
	Status  string            `json:"status"` // discharged | refuted | undecided | vacuous
	Solver  string            `json:"solver"`
	TimeS   float64           `json:"time_s"`
	Paths   int               `json:"paths"`
	Model   map[string]string `json:"model,omitempty"`
	Raw     string            `json:"raw,omitempty"`
}

type FuncReport struct {
	Func    string     `json:"func"`
	Key     string     `json:"key"`
	Trusted bool       `json:"trusted,omitempty"`
	Obs     []ObReport `json:"obligations"`
	Paths   int        `json:"paths"`
	Notes   []string   `json:"notes,omitempty"`
	Failed  string     `json:"failed,omitempty"` // engine could not process the function
	TimeS   float64    `json:"time_s"`
	Sample  string     `json:"-"`
}

func mergeResults(rs []Result) []ObReport {
	by := map[string]*ObReport{}
	var order []string
	rank := map[string]int{"discharged": 0, "undecided": 1, "vacuous": 2, "refuted": 3}
	for _, r := range rs {
		st := ""
		if r.Ob.Kind == "cover" {
			switch r.Status {
			case "sat":
				st = "discharged"
			case "unsat":
				st = "vacuous"
			default:
				st = "undecided"
			}
		} else {
			switch r.Status {
			case "unsat":
				st = "discharged"
			case "sat":
				st = "refuted"
			default:
				st = "undecided"
			}
		}
		o, ok := by[r.Ob.ID]
		if !ok {
			o = &ObReport{ID: r.Ob.ID, Kind: r.Ob.Kind, Desc: r.Ob.Desc, Pos: r.Ob.Pos, Status: st, Solver: r.Solver}
			by[r.Ob.ID] = o
			order = append(order, r.Ob.ID)
		}
		o.Paths++
		o.TimeS += r.TimeS
		if r.Ob.Kind == "cover" {
			// reachable on at least one path is enough
			// ... and unreachable only if EVERY path is proved infeasible: one
			// path the solvers could not settle leaves the question open
			if st == "discharged" {
				o.Status = "discharged"
			} else if o.Status != "discharged" && st == "undecided" {
				o.Status = "undecided"
			}
			continue
		}
		if rank[st] > rank[o.Status] || (st == "refuted" && o.Model == nil) {
			o.Status = st
			o.Solver = r.Solver
			if st == "refuted" {
				o.Model = map[string]string{}
				for i, t := range r.Ob.Values {
					if val, ok := r.Model[t]; ok {
						o.Model[r.Ob.Names[i]] = val
					}
				}
				o.Model["$path"] = fmt.Sprintf("%d", r.Ob.Path)
			}
			if st == "undecided" {
				o.Raw = r.RawTail
			}
		}
	}
	sort.Strings(order)
	out := make([]ObReport, 0, len(order))
	for _, id := range order {
		out = append(out, *by[id])
	}
	return out
}

func (v *Verifier) newExec(fn *ssa.Function, con *Contract, timeout int) *Exec {
	x := &Exec{v: v, fn: fn, con: con, decls: map[string]string{}, hsort: map[string]string{}, freshRef: map[string]bool{},
		anyVals: map[string]Value{}, params: map[string]Value{}, notes: map[string]bool{}, timeout: timeout, budget: 6000}
	if fn != nil && fn.Pkg != nil {
		x.pkg = fn.Pkg.Pkg
	} else if con != nil {
		x.pkg = v.typesPkg(con.Pkg)
	}
	return x
}

// verifyFunc checks one function against its contract.
func (v *Verifier) verifyFunc(key string, timeout int, tier string) *FuncReport {
	t0 := time.Now()
	rep := &FuncReport{Key: key}
	con := v.db.Funcs[key]
	fn := v.findFunc(key)
	if fn == nil {
		rep.Func = key
		rep.Failed = "function not found in /repo (contract no longer binds)"
		return rep
	}
	rep.Func = funcShort(fn)
	if con == nil {
		con = &Contract{Pkg: fn.Pkg.Pkg.Path(), Name: fn.RelString(fn.Pkg.Pkg), Loops: map[int]*LoopSpec{}, Options: map[string]string{}, At: map[string][]Clause{}}
		rep.Notes = append(rep.Notes, "no contract: implicit safety obligations only")
	}
	if len(fn.Blocks) == 0 {
		rep.Failed = "function has no body"
		return rep
	}
	x := v.newExec(fn, con, timeout)
	x.retCover = true
	x.noMerge = os.Getenv("GOWP_NOMERGE") != ""
	if _, has := con.Options["separate-paths"]; has {
		x.noMerge = true // branches are not joined: facts about WHICH closure a value is survive
	}
	func() {
		defer func() {
			if r := recover(); r != nil {
				switch e := r.(type) {
				case specErr:
					x.failed = "contract: " + string(e)
				case unsupported:
					x.failed = string(e)
				default:
					panic(r)
				}
			}
		}()
		x.findLoops()
		x.siteIDs()
		// contract loops must exist
		for n := range con.Loops {
			found := false
			for _, li := range x.loops {
				if li.ordinal == n {
					found = true
				}
			}
			if !found {
				x.failed = fmt.Sprintf("contract names loop %d but the function has %d loops", n, len(x.loops))
				return
			}
		}
		x.atWild = map[string][]Clause{}
		for site := range con.At {
			found := false
			if strings.HasSuffix(site, "*") {
				// "call:delete*": the assertion holds at EVERY site of that name
				// (call:delete, call:delete#2, ...), however many there are
				base := strings.TrimSuffix(site, "*")
				for _, sn := range x.sites {
					if sn == base || strings.HasPrefix(sn, base+"#") {
						if _, done := x.atWild[sn]; !done {
							x.atWild[sn] = con.At[site]
						}
						found = true
					}
				}
			}
			for _, sn := range x.sites {
				if sn == site {
					found = true
				}
			}
			if !found {
				x.failed = "contract names call site " + site + " which no longer exists"
				return
			}
		}
		s := &State{x: x, heap: &Heap{m: map[string]string{}, hv: map[string][]havocRec{}}, env: map[ssa.Value]Value{},
			inst: map[string]bool{}, iters: map[ssa.Value]*iterState{}, loops: map[int]*loopCtx{}}
		x.alloc0 = x.fresh("alloc0", sInt)
		s.assume(app("<=", "1", x.alloc0))
		s.alloc = x.alloc0
		bind := func(name string, val ssa.Value, t types.Type) {
			pv := x.freshValue("p_"+name, t)
			s.assumeRanges(pv)
			s.env[val] = pv
			if name != "" && name != "_" {
				x.params[name] = pv
			}
		}
		for _, fv := range fn.FreeVars {
			bind(fv.Name(), fv, fv.Type())
		}
		for i, p := range fn.Params {
			n := p.Name()
			if n == "" || n == "_" {
				n = fmt.Sprintf("arg%d", i)
			}
			bind(n, p, p.Type())
		}
		x.entry = s.heap.clone()
		env := x.envFor(s, nil)
		for _, av := range con.Any {
			t := env.resolveTypeStr(av.Type)
			val := x.freshValue("any_"+av.Name, t)
			s.assumeRanges(val)
			x.anyVals[av.Name] = val
		}
		env = x.envFor(s, nil)
		for _, av := range con.Any {
			ls := leavesOf(x.anyVals[av.Name].T)
			if len(ls) == 1 {
				s.trigger(ls[0].Sort, x.anyVals[av.Name].S)
			}
		}
		for _, ax := range v.db.Axioms[con.Pkg] {
			env.assumeClause(ax)
		}
		for _, c := range con.Requires {
			env.assumeClause(c)
		}
		x.mods = &ModSet{}
		for _, c := range con.Modifies {
			if id, ok := c.Expr.(*ast.Ident); ok && id.Name == "all" {
				x.mods.all = true
				continue
			}
			x.mods.items = append(x.mods.items, env.evalMod(c.Expr)...)
		}
		for _, mc := range con.Model {
			func() {
				defer func() {
					if r := recover(); r != nil {
						if _, ok := r.(specErr); !ok {
							if _, ok2 := r.(unsupported); !ok2 {
								panic(r)
							}
						}
					}
				}()
				v := env.eval(mc.Expr)
				ls := leavesOf(v.T)
				ts := flatten(v)
				for i, l := range ls {
					x.modelVals = append(x.modelVals, ts[i])
					x.modelNames = append(x.modelNames, mc.Src+l.Path)
				}
			}()
		}
		// ghost assignments of the contract ("ghost g = e"): executed at entry, with
		// e read in the entry state; g must be a ghost variable the contract may modify
		for _, gc := range con.Ghost {
			g, ok := v.db.Ghosts[gc.Label]
			if !ok {
				x.failed = "ghost assignment to undeclared ghost variable " + gc.Label
				break
			}
			val := env.eval(gc.Expr)
			gt := env.resolveTypeStr(g.Type)
			ls := leavesOf(gt)
			ts := flatten(val)
			if len(ls) != len(ts) {
				x.failed = "ghost assignment " + gc.Label + ": shape mismatch"
				break
			}
			for i, l := range ls {
				key := "GH:" + gc.Label + l.Path
				x.regKey(key, l.Sort)
				if !x.mods.all && x.mods.allows(key, "") != "true" {
					ob := x.ob("frame", "ghost#"+sanitize(key), "ghost assignment to "+key+" outside the modifies clause", nil)
					s.check(ob, "false")
				}
				s.heap.m[key] = ts[i]
			}
		}
		o := x.ob("cover", "entry", "precondition satisfiable", nil)
		s.cover(o)
		if x.con != nil && x.con.ReturnsClosure {
			// the contract IS the body's shape: callers take the closure it builds
			_, why := closureCtor(x, nil, fn, make([]Value, len(fn.Params)))
			so := x.ob("closure", "shape", "the body only builds and returns one closure over its parameters"+why, nil)
			if why == "" {
				s.check(so, "true")
			} else {
				s.check(so, "false")
			}
		}
		x.run(s, fn.Blocks[0], nil, nil)
	}()
	x.wg.Wait()
	rep.Paths = x.npaths + 1
	rep.Obs = mergeResults(x.results)
	for n := range x.notes {
		rep.Notes = append(rep.Notes, n)
	}
	sort.Strings(rep.Notes)
	rep.Failed = x.failed
	rep.TimeS = time.Since(t0).Seconds()
	return rep
}

// verifyLemma checks a lemma: forall vars: assumes => show.
func (v *Verifier) verifyLemma(name string, timeout int) *FuncReport {
	t0 := time.Now()
	lm := v.db.Lemmas[name]
	rep := &FuncReport{Key: "lemma:" + name, Func: "lemma " + name}
	if lm == nil {
		rep.Failed = "lemma not found"
		return rep
	}
	con := &Contract{Pkg: lm.Pkg, Name: "lemma " + name, Loops: map[int]*LoopSpec{}}
	x := v.newExec(nil, con, timeout)
	x.pkg = v.typesPkg(lm.Pkg)
	func() {
		defer func() {
			if r := recover(); r != nil {
				switch e := r.(type) {
				case specErr:
					x.failed = "lemma: " + string(e)
				case unsupported:
					x.failed = string(e)
				default:
					panic(r)
				}
			}
		}()
		s := &State{x: x, heap: &Heap{m: map[string]string{}, hv: map[string][]havocRec{}}, env: map[ssa.Value]Value{},
			inst: map[string]bool{}, iters: map[ssa.Value]*iterState{}, loops: map[int]*loopCtx{}}
		x.alloc0 = x.fresh("alloc0", sInt)
		s.assume(app("<=", "1", x.alloc0))
		s.alloc = x.alloc0
		x.entry = s.heap
		x.mods = &ModSet{}
		env := &Env{x: x, s: s, hp: s.heap, old: s.heap, allocOld: x.alloc0, vars: map[string]Value{}, pkg: x.pkg}
		for _, av := range lm.Vars {
			t := env.resolveTypeStr(av.Type)
			val := x.freshValue("lv_"+av.Name, t)
			s.assumeRanges(val)
			x.params[av.Name] = val
			env.vars[av.Name] = val
		}
		for _, a := range lm.Assume {
			s.assume(env.evalBool(a.Expr))
		}
		oc := &Oblig{ID: "lemma " + name + "/cover", Func: "lemma " + name, Kind: "cover", Desc: "hypotheses satisfiable"}
		s.cover(oc)
		t := env.evalBool(lm.Body.Expr)
		o := &Oblig{ID: "lemma " + name, Func: "lemma " + name, Kind: "lemma", Desc: lm.Body.Src}
		for _, n := range x.paramOrder() {
			val := x.params[n]
			ls := leavesOf(val.T)
			ts := flatten(val)
			for i, l := range ls {
				o.Values = append(o.Values, ts[i])
				o.Names = append(o.Names, n+l.Path)
			}
		}
		s.check(o, t)
		x.finish(s)
	}()
	x.wg.Wait()
	rep.Paths = 1
	rep.Obs = mergeResults(x.results)
	rep.Failed = x.failed
	rep.TimeS = time.Since(t0).Seconds()
	return rep
}

// ghostTreeType: map[int]crdt.Value, the abstract content of a mast snapshot.
func (v *Verifier) ghostTreeType() types.Type {
	v.tagMu.Lock()
	defer v.tagMu.Unlock()
	if v.treeT != nil {
		return v.treeT
	}
	cv := v.tpkgs["github.com/jrhy/s3db/kv/crdt"].Scope().Lookup("Value").Type()
	v.treeT = types.NewMap(types.Typ[types.Int], cv)
	return v.treeT
}

func (v *Verifier) keyPtrType() types.Type {
	if p := v.tpkgs["github.com/jrhy/s3db"]; p != nil {
		if o := p.Scope().Lookup("Key"); o != nil {
			return types.NewPointer(o.Type())
		}
	}
	return nil
}
