package main

// Merging of states at join points, and post-dominators.

import (
	"go/types"
	"reflect"
	"sort"

	"golang.org/x/tools/go/ssa"
)

// joinOf: the immediate post-dominator of a branching block, if the region
// between them is free of loop heads (so that loop handling stays per path).
func (x *Exec) joinOf(b *ssa.BasicBlock) *ssa.BasicBlock {
	if !x.ipdomDone {
		x.computeIPDom()
	}
	j := x.ipdom[b]
	if j == nil {
		return nil
	}
	// region check: blocks reachable from b's successors without passing j
	seen := map[*ssa.BasicBlock]bool{}
	stack := append([]*ssa.BasicBlock{}, b.Succs...)
	for len(stack) > 0 {
		n := stack[len(stack)-1]
		stack = stack[:len(stack)-1]
		if n == j || seen[n] {
			continue
		}
		seen[n] = true
		if x.loops[n.Index] != nil {
			return nil
		}
		if len(seen) > 200 {
			return nil
		}
		stack = append(stack, n.Succs...)
	}
	if x.loops[j.Index] != nil {
		return nil
	}
	return j
}

func (x *Exec) computeIPDom() {
	x.ipdomDone = true
	x.ipdom = map[*ssa.BasicBlock]*ssa.BasicBlock{}
	blocks := x.fn.Blocks
	n := len(blocks)
	// post-dominator sets by iteration (functions under contract are small)
	all := make([]map[int]bool, n)
	exits := map[int]bool{}
	for i, b := range blocks {
		if len(b.Succs) == 0 {
			exits[i] = true
		}
	}
	full := map[int]bool{}
	for i := range blocks {
		full[i] = true
	}
	for i := range blocks {
		if exits[i] {
			all[i] = map[int]bool{i: true}
		} else {
			m := map[int]bool{}
			for k := range full {
				m[k] = true
			}
			all[i] = m
		}
	}
	changed := true
	for changed {
		changed = false
		for i := n - 1; i >= 0; i-- {
			b := blocks[i]
			if exits[i] {
				continue
			}
			var inter map[int]bool
			for _, s := range b.Succs {
				ps := all[s.Index]
				if inter == nil {
					inter = map[int]bool{}
					for k := range ps {
						inter[k] = true
					}
				} else {
					for k := range inter {
						if !ps[k] {
							delete(inter, k)
						}
					}
				}
			}
			if inter == nil {
				inter = map[int]bool{}
			}
			inter[i] = true
			if len(inter) != len(all[i]) {
				all[i] = inter
				changed = true
			}
		}
	}
	// immediate post-dominator: the strict post-dominator that is post-dominated by all other strict ones
	for i, b := range blocks {
		var strict []int
		for k := range all[i] {
			if k != i {
				strict = append(strict, k)
			}
		}
		sort.Ints(strict)
		for _, c := range strict {
			ok := true
			for _, d := range strict {
				if d != c && !all[c][d] {
					ok = false
					break
				}
			}
			if ok {
				x.ipdom[b] = blocks[c]
				break
			}
		}
	}
}

func guardSince(s *State, base int) string {
	var cs []string
	for _, g := range s.guards {
		if g.at >= base {
			cs = append(cs, g.c)
		}
	}
	return and(cs...)
}

// mergeStates joins states that arrived at the same block. Returns nil when
// they cannot be merged (they are then continued separately).
func (x *Exec) mergeStates(all []*State, base, nuniv int, join *ssa.BasicBlock) *State {
	if len(all) < 2 {
		return nil
	}
	for _, st := range all {
		if len(st.univ) != nuniv || len(st.defers) != len(all[0].defers) {
			return nil
		}
		if len(st.events) < base {
			return nil
		}
	}
	guards := make([]string, len(all))
	for i, st := range all {
		guards[i] = guardSince(st, base)
	}
	first := all[0]
	m := first.clone()
	m.events = append([]event{}, first.events[:base]...)
	m.guards = nil
	for _, g := range first.guards {
		if g.at < base {
			m.guards = append(m.guards, g)
		}
	}
	for i, st := range all {
		g := guards[i]
		for _, e := range st.events[base:] {
			switch e.kind {
			case evAssume:
				m.events = append(m.events, event{kind: evAssume, term: imp(g, e.term)})
			case evCheck:
				m.events = append(m.events, event{kind: evCheck, term: imp(g, e.term), ob: e.ob})
			case evCover:
				// reachability of a site inside the branch: keep as a guarded check-sat
				m.events = append(m.events, event{kind: evCover, term: g, ob: e.ob})
			}
		}
	}
	// one of the merged branches was taken
	m.assume(or(guards...))
	pick := func(vals []string) string {
		r := vals[len(vals)-1]
		for i := len(vals) - 2; i >= 0; i-- {
			r = ite(guards[i], vals[i], r)
		}
		return r
	}
	// heap
	keys := map[string]bool{}
	for _, st := range all {
		for k := range st.heap.m {
			keys[k] = true
		}
	}
	for k := range keys {
		vals := make([]string, len(all))
		same := true
		for i, st := range all {
			if _, reg := x.hsort[k]; !reg {
				vals[i] = st.heap.m[k]
			} else if len(k) > 2 && (k[:2] == "G:" || k[:3] == "GH:") {
				vals[i] = st.readScalar(st.heap, k)
			} else {
				vals[i] = st.heapTerm(st.heap, k)
			}
			if vals[i] != vals[0] {
				same = false
			}
		}
		if same {
			m.heap.m[k] = vals[0]
		} else {
			m.heap.m[k] = pick(vals)
		}
		// union of havoc histories
		seen := map[int]bool{}
		var hv []havocRec
		for _, st := range all {
			for _, r := range st.heap.hv[k] {
				if !seen[r.id] {
					seen[r.id] = true
					hv = append(hv, r)
				}
			}
		}
		if len(hv) > 0 {
			m.heap.hv[k] = hv
		}
	}
	// allocation frontier
	{
		vals := make([]string, len(all))
		for i, st := range all {
			vals[i] = st.alloc
		}
		m.alloc = pick(vals)
	}
	// environment
	envKeys := map[ssa.Value]bool{}
	for _, st := range all {
		for k := range st.env {
			envKeys[k] = true
		}
	}
	for k := range envKeys {
		var present []int
		for i, st := range all {
			if _, ok := st.env[k]; ok {
				present = append(present, i)
			}
		}
		if len(present) != len(all) {
			// defined on some branches only: cannot be used after the join except through phis
			m.env[k] = all[present[0]].env[k]
			continue
		}
		m.env[k] = mergeValues(all, guards, func(st *State) Value { return st.env[k] })
	}
	// errors reported by callees: a branch that did not see the call says nothing
	m.errSeen = nil
	m.errVal = nil
	{
		sites := map[string]bool{}
		for _, st := range all {
			for k := range st.errSeen {
				sites[k] = true
			}
		}
		for k := range sites {
			var parts []string
			same, first := true, ""
			for i, st := range all {
				c, ok := st.errSeen[k]
				if !ok {
					c = "true"
				}
				if i == 0 {
					first = c
				} else if c != first {
					same = false
				}
				parts = append(parts, imp(guards[i], c))
			}
			if m.errSeen == nil {
				m.errSeen = map[string]string{}
			}
			if same {
				m.errSeen[k] = first
			} else {
				m.errSeen[k] = and(parts...)
			}
			// the value: an ite chain over the branches that saw the call
			var tag, box string
			okAll := true
			for i := len(all) - 1; i >= 0; i-- {
				v, has := all[i].errVal[k]
				if !has {
					if _, seen := all[i].errSeen[k]; seen {
						okAll = false
					}
					continue
				}
				if tag == "" {
					tag, box = v[0], v[1]
				} else {
					tag, box = ite(guards[i], v[0], tag), ite(guards[i], v[1], box)
				}
			}
			if okAll && tag != "" {
				if m.errVal == nil {
					m.errVal = map[string][2]string{}
				}
				m.errVal[k] = [2]string{tag, box}
			}
		}
	}
	// source-level names: kept where every branch agrees on what the name means
	m.names = map[string]nameBind{}
	for n, nb := range all[0].names {
		same, okAll := true, true
		for _, st := range all[1:] {
			o, ok := st.names[n]
			if !ok || o.cell != nb.cell || o.v.T == nil || !types.Identical(o.v.T, nb.v.T) || (o.v.LV != nil) != (nb.v.LV != nil) {
				okAll = false
				break
			}
			if !reflect.DeepEqual(o.v, nb.v) {
				same = false
			}
		}
		if !okAll {
			continue
		}
		if same {
			m.names[n] = nb
			continue
		}
		if nb.cell || nb.v.LV != nil || nb.v.Fn != nil {
			continue
		}
		n := n
		func() {
			defer func() { recover() }()
			v := mergeValues(all, guards, func(st *State) Value { return st.names[n].v })
			m.names[n] = nameBind{v, false}
		}()
	}
	// phis of the join block
	var phis []*ssa.Phi
	for _, in := range join.Instrs {
		p, ok := in.(*ssa.Phi)
		if !ok {
			break
		}
		phis = append(phis, p)
	}
	for _, p := range phis {
		p := p
		bad := false
		v := mergeValues(all, guards, func(st *State) Value {
			if st.arrPred == nil {
				if st.mergedAtStop {
					return st.env[p] // already joined by an inner merge at the same block
				}
				bad = true
				return Value{}
			}
			return x.val(st, p.Edges[predIndex(join, st.arrPred)])
		})
		if bad {
			return nil
		}
		m.env[p] = v
		m.setName(p.Comment, v, false)
	}
	// iterators
	for k, it := range m.iters {
		vals := make([]string, len(all))
		for i, st := range all {
			if o := st.iters[k]; o != nil {
				vals[i] = o.visited
			} else {
				vals[i] = it.visited
			}
		}
		it.visited = pick(vals)
	}
	// instantiation bookkeeping: union
	for _, st := range all[1:] {
		// instantiations are guarded by their branch: only those made on every branch stay valid unguarded
		for k := range m.inst {
			if !st.inst[k] {
				delete(m.inst, k)
			}
		}
		for sort, ts := range st.terms {
			for _, t := range ts {
				key := sort + "|" + t
				if m.termSet == nil {
					m.termSet = map[string]bool{}
					m.terms = map[string][]string{}
				}
				if !m.termSet[key] {
					m.termSet[key] = true
					m.terms[sort] = append(m.terms[sort], t)
				}
			}
		}
		for k, lc := range st.loops {
			if _, ok := m.loops[k]; !ok {
				m.loops[k] = lc
			}
		}
	}
	// universals: instances done on any branch need not be repeated only if done on all; be conservative
	for ui, u := range m.univ {
		for _, st := range all[1:] {
			if ui < len(st.univ) {
				for k := range u.done {
					if !st.univ[ui].done[k] {
						delete(u.done, k)
					}
				}
			}
		}
	}
	m.arrPred = nil
	m.dead = false
	m.mergedAtStop = false
	// terms seen on one branch only still need the existing universals
	for _, u := range m.univ {
		m.instantiate(u)
	}
	return m
}

func mergeValues(all []*State, guards []string, get func(*State) Value) Value {
	vs := make([]Value, len(all))
	for i, st := range all {
		vs[i] = get(st)
	}
	first := vs[0]
	same := true
	for _, v := range vs[1:] {
		if !valueIdentical(first, v) {
			same = false
			break
		}
	}
	if same {
		return first
	}
	if first.LV != nil || first.Fn != nil {
		// structured pointers / closures: keep the first (values defined in a branch are only used there)
		return first
	}
	fl := make([][]string, len(vs))
	for i, v := range vs {
		fl[i] = flatten(v)
		if len(fl[i]) != len(fl[0]) {
			return first
		}
	}
	terms := make([]string, len(fl[0]))
	for j := range terms {
		r := fl[len(vs)-1][j]
		for i := len(vs) - 2; i >= 0; i-- {
			r = ite(guards[i], fl[i][j], r)
		}
		terms[j] = r
	}
	var t types.Type = first.T
	if t == nil {
		out := first
		if len(terms) == 1 {
			out.S = terms[0]
		}
		return out
	}
	r := build(t, &terms)
	return r
}

func valueIdentical(a, b Value) bool {
	if a.S != b.S || len(a.F) != len(b.F) || (a.LV == nil) != (b.LV == nil) {
		return false
	}
	for i := range a.F {
		if !valueIdentical(a.F[i], b.F[i]) {
			return false
		}
	}
	if a.LV != nil && b.LV != nil {
		return *a.LV == *b.LV || (a.LV.Base == b.LV.Base && a.LV.Path == b.LV.Path && a.LV.Idx == b.LV.Idx && a.LV.Global == b.LV.Global && a.LV.Elem == b.LV.Elem)
	}
	return true
}
