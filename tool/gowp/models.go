package main

// Go-coded models of library functions whose semantics needs sorts or ghost
// state the contract language does not express directly. Everything here is
// part of the trusted base and is listed in the evidence (trusted_base).

import (
	"go/types"
	"strings"

	"golang.org/x/tools/go/ssa"
)

type modelFn func(x *Exec, s *State, in ssa.Instruction, args []Value, c *ssa.CallCommon) (Value, bool)

var models map[string]modelFn
var modelModKeys = map[string]func(x *Exec, s *State) []string{}

// modelDocs: the assumed contract, in words, for the evidence files.
var modelDocs = map[string]string{
	"time.Time.Add":              "t.Add(d) = t + d on wall-clock nanoseconds (monotonic reading and Location ignored)",
	"time.Time.Sub":              "t.Sub(u) = t - u saturated to the int64 range",
	"time.Time.After/Before/Equal": "integer comparison of wall-clock nanoseconds",
	"time.Time.UnixNano":         "t wrapped to int64 (Go: undefined outside 1678..2262; the implementation wraps)",
	"time.Unix":                  "time.Unix(s, ns) = s*1e9 + ns",
	"time.Now":                   "an arbitrary time between 1970 and 2116",
	"durationpb":                 "durationpb.New(d).AsDuration() == d for every int64 d; AsDuration(nil) == 0; AsDuration never leaves the int64 range",
	"proto.Clone":                "deep copy into a fresh message: every field of the clone equals the original's; nothing else changes",
	"fmt.Errorf/errors.New":      "return a fresh non-nil error; %w keeps the awserr classification of the wrapped error; message text is dropped",
	"errors.As(awserr)":          "errors.As(err,&awserr.Error) and ae.Code() are uninterpreted functions of the error value, preserved by %w wrapping",
	"bytes.Compare":              "lexicographic comparison of the byte contents",
	"reflect.DeepEqual":          "an uninterpreted predicate that is true for identical abstract values",
	"sync.Mutex":                 "Lock/Unlock have no effect on the sequential state (threads are not modelled)",
	"runtime.SetFinalizer":       "no effect on the abstract state",
}

func init() {
	models = map[string]modelFn{}
	tv := func(x *Exec, term string) Value { return Value{T: x.v.timeType(), S: term} }
	bv := func(term string) Value { return Value{T: tBool, S: term} }
	models["time.(Time).Add"] = func(x *Exec, s *State, in ssa.Instruction, a []Value, c *ssa.CallCommon) (Value, bool) {
		return tv(x, app("+", a[0].S, a[1].S)), true
	}
	models["time.(Time).Sub"] = func(x *Exec, s *State, in ssa.Instruction, a []Value, c *ssa.CallCommon) (Value, bool) {
		d := app("-", a[0].S, a[1].S)
		lo, hi, _ := intRange(types.Typ[types.Int64])
		return Value{T: c.Signature().Results().At(0).Type(), S: ite(app(">", d, hi), hi, ite(app("<", d, lo), lo, d))}, true
	}
	models["time.(Time).After"] = func(x *Exec, s *State, in ssa.Instruction, a []Value, c *ssa.CallCommon) (Value, bool) {
		return bv(app(">", a[0].S, a[1].S)), true
	}
	models["time.(Time).Before"] = func(x *Exec, s *State, in ssa.Instruction, a []Value, c *ssa.CallCommon) (Value, bool) {
		return bv(app("<", a[0].S, a[1].S)), true
	}
	models["time.(Time).Equal"] = func(x *Exec, s *State, in ssa.Instruction, a []Value, c *ssa.CallCommon) (Value, bool) {
		return bv(eq(a[0].S, a[1].S)), true
	}
	models["time.(Time).IsZero"] = func(x *Exec, s *State, in ssa.Instruction, a []Value, c *ssa.CallCommon) (Value, bool) {
		return bv(eq(a[0].S, timeZeroNS)), true
	}
	models["time.(Time).UnixNano"] = func(x *Exec, s *State, in ssa.Instruction, a []Value, c *ssa.CallCommon) (Value, bool) {
		return Value{T: types.Typ[types.Int64], S: wrapInt(a[0].S, types.Typ[types.Int64], false)}, true
	}
	models["time.(Time).Unix"] = func(x *Exec, s *State, in ssa.Instruction, a []Value, c *ssa.CallCommon) (Value, bool) {
		return Value{T: types.Typ[types.Int64], S: app("div", a[0].S, "1000000000")}, true
	}
	models["time.Unix"] = func(x *Exec, s *State, in ssa.Instruction, a []Value, c *ssa.CallCommon) (Value, bool) {
		return tv(x, app("+", app("*", a[0].S, "1000000000"), a[1].S)), true
	}
	models["time.Now"] = func(x *Exec, s *State, in ssa.Instruction, a []Value, c *ssa.CallCommon) (Value, bool) {
		t := x.fresh("now", sInt)
		// the clock is between 1970 and 2116 (|t| < 2^62 ns: the range all time contracts assume)
		s.assume(and(app("<=", "0", t), app("<", t, "4611686018427387904")))
		return tv(x, t), true
	}
	models["time.(Time).Format"] = func(x *Exec, s *State, in ssa.Instruction, a []Value, c *ssa.CallCommon) (Value, bool) {
		x.declareFun("uf_time_format", []string{sInt, sStr}, sStr)
		return Value{T: tString, S: app("uf_time_format", a[0].S, a[1].S)}, true
	}
	models["google.golang.org/protobuf/types/known/durationpb.New"] = func(x *Exec, s *State, in ssa.Instruction, a []Value, c *ssa.CallCommon) (Value, bool) {
		r := s.allocRef()
		x.freshRef[r] = true
		key := "H:durationpb.Duration.$dur"
		x.regKey(key, arrSort(sInt, sInt))
		s.write(key, r, a[0].S)
		return Value{T: c.Signature().Results().At(0).Type(), S: r}, true
	}
	models["google.golang.org/protobuf/types/known/durationpb.(*Duration).AsDuration"] = func(x *Exec, s *State, in ssa.Instruction, a []Value, c *ssa.CallCommon) (Value, bool) {
		return Value{T: c.Signature().Results().At(0).Type(), S: x.durOf(s, s.heap, a[0].S)}, true
	}
	noop := func(x *Exec, s *State, in ssa.Instruction, a []Value, c *ssa.CallCommon) (Value, bool) {
		return Value{}, true
	}
	models["sync.(*Mutex).Lock"] = noop
	models["sync.(*Mutex).Unlock"] = noop
	models["runtime.SetFinalizer"] = noop
	models["fmt.Printf"] = func(x *Exec, s *State, in ssa.Instruction, a []Value, c *ssa.CallCommon) (Value, bool) {
		return x.freshResult(s, c.Signature().Results()), true
	}
	newErr := func(x *Exec, s *State, rt types.Type, kind string) Value {
		r := s.allocRef()
		x.freshRef[r] = true
		return ifaceVal(rt, x.v.tagOf(types.NewPointer(x.v.errStructType(kind))), r)
	}
	models["errors.New"] = func(x *Exec, s *State, in ssa.Instruction, a []Value, c *ssa.CallCommon) (Value, bool) {
		e := newErr(x, s, c.Signature().Results().At(0).Type(), "errorString")
		x.declAwsFuns()
		s.assume(not(app("err_isaws", e.F[0].S, e.F[1].S)))
		return e, true
	}
	models["fmt.Errorf"] = func(x *Exec, s *State, in ssa.Instruction, a []Value, c *ssa.CallCommon) (Value, bool) {
		e := newErr(x, s, c.Signature().Results().At(0).Type(), "wrapError")
		x.declAwsFuns()
		format, isConst := constString(c.Args[0])
		if isConst && strings.Contains(format, "%w") {
			// the wrapped error is the last variadic argument in every use in /repo
			va := a[1]
			last := s.load(s.elemPtr(va, app("-", va.F[2].S, "1")))
			s.assume(eq(app("err_isaws", e.F[0].S, e.F[1].S), app("err_isaws", last.F[0].S, last.F[1].S)))
			s.assume(eq(app("err_awscode", e.F[0].S, e.F[1].S), app("err_awscode", last.F[0].S, last.F[1].S)))
		} else if isConst {
			s.assume(not(app("err_isaws", e.F[0].S, e.F[1].S)))
		}
		return e, true
	}
	models["fmt.Sprintf"] = func(x *Exec, s *State, in ssa.Instruction, a []Value, c *ssa.CallCommon) (Value, bool) {
		// a pure function of the format and of (up to four) boxed arguments
		va := a[1]
		x.declareFun("sprintf", []string{sStr, sInt, sInt, sInt, sInt, sInt, sInt, sInt, sInt, sInt}, sStr)
		args := []string{a[0].S, va.F[2].S}
		for i := 0; i < 4; i++ {
			e := s.loadFrom(s.heap, s.elemPtr(va, intLit(int64(i))))
			in := app("<", intLit(int64(i)), va.F[2].S)
			args = append(args, ite(in, e.F[0].S, "0"), ite(in, e.F[1].S, "0"))
		}
		return Value{T: tString, S: app("sprintf", args...)}, true
	}
	// rand.Shuffle(n, swap): the slices captured by the swap closure are permuted.
	models["math/rand.Shuffle"] = func(x *Exec, s *State, in ssa.Instruction, a []Value, c *ssa.CallCommon) (Value, bool) {
		fv := a[1]
		if fv.Fn == nil {
			panic(unsupported("rand.Shuffle with an unknown swap function"))
		}
		n := a[0].S
		for _, b := range fv.Fn.Bindings {
			pt, ok := b.T.Underlying().(*types.Pointer)
			if !ok {
				continue
			}
			st, ok := pt.Elem().Underlying().(*types.Slice)
			if !ok {
				continue
			}
			sl := s.load(b)
			prefix := "E:" + typeKey(st.Elem())
			perm := x.fresh("perm", sInt) // names only; functions declared below
			pf, pinv := "perm_"+perm, "pinv_"+perm
			x.declareFun(pf, []string{sInt}, sInt)
			x.declareFun(pinv, []string{sInt}, sInt)
			for _, l := range s.regLeaves(prefix, st.Elem(), true) {
				key := prefix + l.Path
				x.frameCheck(s, key, sl.F[0].S, in)
				old := s.read(s.heap, key, sl.F[0].S)
				na := x.fresh("shuf", arrSort(sInt, l.Sort))
				off := sl.F[1].S
				u := &universal{vars: []AnyVar{{"i", ""}}, types: []types.Type{types.Typ[types.Int]}, sorts: []string{sInt}, done: map[string]bool{}}
				u.gen = func(st *State, ch []string) string {
					t := ch[0]
					inr := and(app("<=", "0", t), app("<", t, n))
					fwd := and(eq(sel(na, app("+", off, t)), sel(old, app("+", off, app(pf, t)))), app("<=", "0", app(pf, t)), app("<", app(pf, t), n), eq(app(pinv, app(pf, t)), t))
					bwd := and(eq(sel(na, app("+", off, app(pinv, t))), sel(old, app("+", off, t))), app("<=", "0", app(pinv, t)), app("<", app(pinv, t), n), eq(app(pf, app(pinv, t)), t))
					return and(imp(inr, and(fwd, bwd)), imp(not(inr), eq(sel(na, app("+", off, t)), sel(old, app("+", off, t)))))
				}
				u.more = func(ch []string) []string { return []string{app(pinv, ch[0]), app(pf, ch[0])} }
				s.univ = append(s.univ, u)
				s.instantiate(u)
				s.writeWhole(key, sl.F[0].S, na)
			}
		}
		return Value{}, true
	}
	modelModKeys["math/rand.Shuffle"] = func(x *Exec, s *State) []string { return []string{"*"} }
	// json.Unmarshal(data, &x): x becomes arbitrary (only the object behind the pointer changes)
	models["encoding/json.Unmarshal"] = func(x *Exec, s *State, in ssa.Instruction, a []Value, c *ssa.CallCommon) (Value, bool) {
		mi, ok := c.Args[1].(*ssa.MakeInterface)
		if !ok {
			// the target's type is not syntactically known: anything reachable may change
			x.note("json.Unmarshal into a value of unknown type: everything havocked")
			s.havocAll()
			return x.freshResult(s, c.Signature().Results().At(0).Type()), true
		}
		p := x.val(s, mi.X)
		pt, ok := p.T.Underlying().(*types.Pointer)
		if !ok {
			panic(unsupported("json.Unmarshal into a non-pointer"))
		}
		x.frameCheckPtr(s, p, in)
		nv := x.freshValue("json", pt.Elem())
		s.assumeRanges(nv)
		s.store(p, nv)
		return x.freshResult(s, c.Signature().Results().At(0).Type()), true
	}
	modelModKeys["encoding/json.Unmarshal"] = func(x *Exec, s *State) []string { return []string{"*"} }
	models["bytes.Compare"] = func(x *Exec, s *State, in ssa.Instruction, a []Value, c *ssa.CallCommon) (Value, bool) {
		sa, sb := x.bytesStr(s, s.heap, a[0]), x.bytesStr(s, s.heap, a[1])
		return Value{T: tInt, S: ite(app("str.<", sa, sb), "(- 1)", ite(eq(sa, sb), "0", "1"))}, true
	}
	models["reflect.DeepEqual"] = func(x *Exec, s *State, in ssa.Instruction, a []Value, c *ssa.CallCommon) (Value, bool) {
		x.declareFun("deep_equal", []string{sInt, sInt, sInt, sInt}, sBool)
		t := deepEqualTerm(a[0], a[1])
		s.assume(imp(valuesEqual(a[0], a[1]), t))
		return bv(t), true
	}
	models["google.golang.org/protobuf/proto.Clone"] = func(x *Exec, s *State, in ssa.Instruction, a []Value, c *ssa.CallCommon) (Value, bool) {
		mi, ok := c.Args[0].(*ssa.MakeInterface)
		if !ok {
			panic(unsupported("proto.Clone of a value whose concrete type is not syntactically known"))
		}
		pt := mi.X.Type()
		et := pt.Underlying().(*types.Pointer).Elem()
		src := x.val(s, mi.X)
		r := s.allocRef()
		x.freshRef[r] = true
		dst := Value{T: pt, S: r}
		v := s.load(src)
		s.store(dst, v)
		_ = et
		// a nil message clones to nil
		res := ite(eq(src.S, "0"), "0", r)
		return ifaceVal(c.Signature().Results().At(0).Type(), x.v.tagOf(pt), res), true
	}
	models["errors.As"] = func(x *Exec, s *State, in ssa.Instruction, a []Value, c *ssa.CallCommon) (Value, bool) {
		// only errors.As(err, &awserr.Error) occurs in /repo
		mi, ok := c.Args[1].(*ssa.MakeInterface)
		if !ok {
			panic(unsupported("errors.As with unknown target"))
		}
		tp := x.val(s, mi.X)
		tt := tp.T.Underlying().(*types.Pointer).Elem()
		if !strings.HasSuffix(typeKey(tt), "awserr.Error") {
			// any other target type: whether the chain holds such an error is an
			// uninterpreted predicate of the error value; a nil error never matches;
			// on a match the target receives an arbitrary value of its type
			fn := "err_as_" + sanitize(typeKey(tt))
			x.declareFun(fn, []string{sInt, sInt}, sBool)
			e := a[0]
			hit := and(not(eq(e.F[0].S, "0")), app(fn, e.F[0].S, e.F[1].S))
			old := s.load(tp)
			nv := x.freshValue("as_target", tt)
			s.assumeRanges(nv)
			merged := mergeTwo(hit, nv, old)
			s.store(tp, merged)
			return bv(hit), true
		}
		x.declAwsFuns()
		e := a[0]
		isAws := and(not(eq(e.F[0].S, "0")), app("err_isaws", e.F[0].S, e.F[1].S))
		// *target = the awserr in the chain (represented by the original error value)
		old := s.load(tp)
		nv := ifaceVal(tt, ite(isAws, e.F[0].S, old.F[0].S), ite(isAws, e.F[1].S, old.F[1].S))
		s.store(tp, nv)
		return bv(isAws), true
	}
	models["github.com/aws/aws-sdk-go/aws/awserr.Error.Code"] = func(x *Exec, s *State, in ssa.Instruction, a []Value, c *ssa.CallCommon) (Value, bool) {
		x.declAwsFuns()
		return Value{T: tString, S: app("err_awscode", a[0].F[0].S, a[0].F[1].S)}, true
	}
}

func (x *Exec) declAwsFuns() {
	x.declareFun("err_isaws", []string{sInt, sInt}, sBool)
	x.declareFun("err_awscode", []string{sInt, sInt}, sStr)
}

// ---------------------------------------------------------------------------
// Higher-order iterators of the mast dependency: m.DiffIter(ctx, old, f) and
// m.DiffLinks(ctx, old, f) call f some number of times (unknown, possibly
// zero) and return an arbitrary error. The effect on the state is therefore
// "whatever f's contract allows, any number of times": the locations in f's
// modifies clause (evaluated with the closure's captured variables and
// arbitrary arguments) are havocked, under the caller's frame; nothing about
// WHICH entries f is called for is assumed here — functions that need that
// (every entry is visited exactly once) carry it as an ensures-assumed clause.
func init() {
	modelDocs["mast.(*Mast).DiffIter/DiffLinks"] = "the callback is invoked an unknown number of times with arbitrary arguments: locations its contract may modify are havocked; which entries are visited is NOT modelled (assumed per caller where needed)"
	iter := func(x *Exec, s *State, in ssa.Instruction, a []Value, c *ssa.CallCommon) (Value, bool) {
		f := a[len(a)-1]
		rt := c.Signature().Results().At(0).Type()
		if f.Fn == nil {
			x.note("iterator callback is not a statically known closure: everything havocked")
			s.havocAll()
			return x.freshResult(s, rt), true
		}
		con := x.v.db.Funcs[f.Fn.Name]
		if con == nil {
			x.note("iterator callback without contract (everything havocked): " + f.Fn.Name)
			x.v.unknownCalls.Store(f.Fn.Name, true)
			s.havocAll()
			return x.freshResult(s, rt), true
		}
		con.Used = true
		fn := f.Fn.Fn.(*ssa.Function)
		names := x.paramNames(fn, nil, f.Fn.Name)
		args := append([]Value{}, f.Fn.Bindings...)
		for _, p := range fn.Params {
			v := x.freshValue("cbarg_"+p.Name(), p.Type())
			s.assumeRanges(v)
			args = append(args, v)
		}
		x.havocByContract(s, con, names, args, in, x.sites[in])
		return x.freshResult(s, rt), x.failed == ""
	}
	models["github.com/jrhy/mast.(*Mast).DiffIter"] = iter
	models["github.com/jrhy/mast.(*Mast).DiffLinks"] = iter
	mk := func(x *Exec, s *State) []string { return []string{"*"} }
	modelModKeys["github.com/jrhy/mast.(*Mast).DiffIter"] = mk
	modelModKeys["github.com/jrhy/mast.(*Mast).DiffLinks"] = mk
}

// havocByContract applies only the frame of a contract: its modifies clause is
// checked against the caller's frame and the locations are havocked.
func (x *Exec) havocByContract(s *State, con *Contract, names []string, args []Value, in ssa.Instruction, site string) {
	vars := map[string]Value{}
	for i, n := range names {
		if i < len(args) {
			vars[n] = args[i]
		}
	}
	env := &Env{x: x, s: s, hp: s.heap, old: s.heap, allocOld: s.alloc, vars: vars, pkg: x.v.typesPkg(con.Pkg)}
	cm := &ModSet{}
	ok := true
	func() {
		defer x.recoverSpec(con.Name, &ok)
		for _, c := range con.Modifies {
			if id, isID := c.Expr.(interface{ String() string }); isID && id.String() == "all" {
				cm.all = true
				continue
			}
			cm.items = append(cm.items, env.evalMod(c.Expr)...)
		}
	}()
	if !ok {
		return
	}
	if cm.all && !x.mods.all {
		o := x.ob("frame", site, "callback "+con.Name+" may modify anything", in)
		s.check(o, "false")
	}
	for _, it := range cm.items {
		if strings.HasPrefix(it.key, "G:") || strings.HasPrefix(it.key, "GH:") || it.addr == "" {
			if !x.mods.all && x.mods.allows(it.key, "") != "true" {
				o := x.ob("frame", site+"#"+sanitize(it.key), "callback "+con.Name+" modifies "+it.key, in)
				s.check(o, "false")
			}
			continue
		}
		x.frameCheck(s, it.key, it.addr, in)
	}
	allocOld := s.alloc
	if cm.all {
		s.havocAll()
		return
	}
	for _, k := range cm.keys() {
		k := k
		if strings.HasPrefix(k, "G:") || strings.HasPrefix(k, "GH:") {
			s.heap.m[k] = x.fresh("hv_"+k, x.heapSort(k))
			continue
		}
		s.havocKey(k, func(addr string) string {
			return and(app("<", addr, allocOld), not(cm.allows(k, addr)))
		})
	}
	na := x.fresh("alloc", sInt)
	s.assume(app("<=", s.alloc, na))
	s.alloc = na
	s.sealHavoc()
}

// sort.Strings(x): x becomes a sorted permutation of its old contents.
func init() {
	modelDocs["sort.Strings"] = "the slice becomes a permutation of its old contents (bijection on 0..len) in non-decreasing order"
	models["sort.Strings"] = func(x *Exec, s *State, in ssa.Instruction, a []Value, c *ssa.CallCommon) (Value, bool) {
		sl := a[0]
		n := sl.F[2].S
		off := sl.F[1].S
		key := "E:string"
		x.regKey(key, arrSort(sInt, arrSort(sInt, sStr)))
		x.frameUnless = app("<=", n, "1") // at most one element: nothing moves
		x.frameCheck(s, key, sl.F[0].S, in)
		x.frameUnless = ""
		old := s.read(s.heap, key, sl.F[0].S)
		na := x.fresh("sorted", arrSort(sInt, sStr))
		perm := x.fresh("perm", sInt)
		pf, pinv := "perm_"+perm, "pinv_"+perm
		x.declareFun(pf, []string{sInt}, sInt)
		x.declareFun(pinv, []string{sInt}, sInt)
		u := &universal{vars: []AnyVar{{"i", ""}}, types: []types.Type{types.Typ[types.Int]}, sorts: []string{sInt}, done: map[string]bool{}}
		u.gen = func(st *State, ch []string) string {
			t := ch[0]
			inr := and(app("<=", "0", t), app("<", t, n))
			fwd := and(eq(sel(na, app("+", off, t)), sel(old, app("+", off, app(pf, t)))), app("<=", "0", app(pf, t)), app("<", app(pf, t), n), eq(app(pinv, app(pf, t)), t))
			bwd := and(eq(sel(na, app("+", off, app(pinv, t))), sel(old, app("+", off, t))), app("<=", "0", app(pinv, t)), app("<", app(pinv, t), n), eq(app(pf, app(pinv, t)), t))
			next := app("+", t, "1")
			srt := imp(app("<", next, n), app("str.<=", sel(na, app("+", off, t)), sel(na, app("+", off, next))))
			return and(imp(inr, and(fwd, bwd, srt)), imp(not(inr), eq(sel(na, app("+", off, t)), sel(old, app("+", off, t)))))
		}
		u.more = func(ch []string) []string { return []string{app(pinv, ch[0]), app(pf, ch[0])} }
		s.univ = append(s.univ, u)
		s.instantiate(u)
		s.writeWhole(key, sl.F[0].S, na)
		return Value{}, true
	}
	modelModKeys["sort.Strings"] = func(x *Exec, s *State) []string { return []string{"E:string"} }
}


// mergeTwo: ite(c, a, b) leaf by leaf.
func mergeTwo(c string, a, b Value) Value {
	fa, fb := flatten(a), flatten(b)
	out := make([]string, len(fa))
	for i := range fa {
		out[i] = ite(c, fa[i], fb[i])
	}
	return build(a.T, &out)
}

// deepEqualTerm: the uninterpreted deep-equality predicate on two interface
// values; the box word of a nil interface is normalised (it carries nothing).
func deepEqualTerm(a, b Value) string {
	nb := func(v Value) string { return ite(eq(v.F[0].S, "0"), "0", v.F[1].S) }
	return app("deep_equal", a.F[0].S, nb(a), b.F[0].S, nb(b))
}
