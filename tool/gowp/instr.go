package main

import (
	"go/ast"
	"fmt"
	"os"
	"go/token"
	"go/types"

	"golang.org/x/tools/go/ssa"
)

// tags for dynamic types (stable across functions of one run)
func (v *Verifier) tagOf(t types.Type) string {
	k := typeKey(t)
	v.tagMu.Lock()
	defer v.tagMu.Unlock()
	if n, ok := v.tags[k]; ok {
		return fmt.Sprintf("%d", n)
	}
	n := len(v.tags) + 1
	v.tags[k] = n
	return fmt.Sprintf("%d", n)
}

// boxing of concrete values into interface payloads
func (x *Exec) box(s *State, v Value) string {
	t := v.T
	switch kindOf(t) {
	case kInt, kRef, kTime, kOpaque:
		if v.LV != nil {
			panic(unsupported("interior pointer stored in an interface"))
		}
		return v.S
	case kBool:
		return ite(v.S, "1", "0")
	}
	ls := leavesOf(t)
	ts := flatten(v)
	name := "box_" + sanitize(typeKey(t))
	var sorts []string
	for _, l := range ls {
		sorts = append(sorts, l.Sort)
	}
	x.declareFun(name, sorts, sInt)
	b := app(name, ts...)
	for i, l := range ls {
		un := fmt.Sprintf("unbox_%s_%d", sanitize(typeKey(t)), i)
		x.declareFun(un, []string{sInt}, l.Sort)
		s.assume(eq(app(un, b), ts[i]))
	}
	return b
}

func (x *Exec) unbox(s *State, box string, t types.Type) Value {
	switch kindOf(t) {
	case kInt, kTime, kOpaque:
		v := Value{T: t, S: box}
		return v
	case kRef:
		return Value{T: t, S: box}
	case kBool:
		return Value{T: t, S: not(eq(box, "0"))}
	}
	ls := leavesOf(t)
	name := "box_" + sanitize(typeKey(t))
	var sorts []string
	terms := make([]string, len(ls))
	for i, l := range ls {
		sorts = append(sorts, l.Sort)
		un := fmt.Sprintf("unbox_%s_%d", sanitize(typeKey(t)), i)
		x.declareFun(un, []string{sInt}, l.Sort)
		terms[i] = app(un, box)
	}
	x.declareFun(name, sorts, sInt)
	return build(t, &terms)
}

// assumeBoxed states that box is the image of its unboxed payload (holds for
// every interface value whose dynamic type is t).
func (x *Exec) assumeBoxed(s *State, box string, t types.Type, guard string) {
	switch kindOf(t) {
	case kInt:
		if lo, hi, ok := intRange(t); ok {
			s.assume(imp(guard, and(app("<=", lo, box), app("<=", box, hi))))
		}
		return
	case kRef:
		s.assume(imp(guard, and(app("<=", "0", box), app("<", box, s.alloc))))
		return
	case kTime, kOpaque, kBool:
		return
	}
	v := x.unbox(s, box, t)
	ts := flatten(v)
	name := "box_" + sanitize(typeKey(t))
	s.assume(imp(guard, eq(app(name, ts...), box)))
	ls := leavesOf(t)
	for i, l := range ls {
		if l.K == kInt && l.T != nil {
			if lo, hi, ok := intRange(l.T); ok {
				s.assume(imp(guard, and(app("<=", lo, ts[i]), app("<=", ts[i], hi))))
			}
		} else if l.K == kRef {
			s.assume(imp(guard, and(app("<=", "0", ts[i]), app("<", ts[i], s.alloc))))
		} else if l.K == kInt {
			s.assume(imp(guard, and(app("<=", "0", ts[i]), app("<=", ts[i], "9223372036854775807"))))
		}
	}
}

func (x *Exec) makeIface(s *State, v Value, it types.Type) Value {
	if kindOf(v.T) == kIface {
		return Value{T: it, F: v.F}
	}
	return ifaceVal(it, x.v.tagOf(v.T), x.box(s, v))
}

func ifaceIsNil(v Value) string { return eq(v.F[0].S, "0") }

func valuesEqual(a, b Value) string {
	if kindOf(a.T) == kIface && kindOf(b.T) == kIface {
		return and(eq(a.F[0].S, b.F[0].S), or(eq(a.F[0].S, "0"), eq(a.F[1].S, b.F[1].S)))
	}
	if kindOf(a.T) == kFP {
		return app("fp.eq", a.S, b.S)
	}
	fa, fb := flatten(a), flatten(b)
	if len(fa) != len(fb) {
		panic(unsupported(fmt.Sprintf("comparison of %v and %v", a.T, b.T)))
	}
	var cs []string
	for i := range fa {
		cs = append(cs, eq(fa[i], fb[i]))
	}
	return and(cs...)
}

// step executes one non-terminator instruction; false ends the path.
func (x *Exec) step(s *State, in ssa.Instruction) (cont bool) {
	defer func() {
		if r := recover(); r != nil {
			if u, ok := r.(unsupported); ok {
				x.failed = fmt.Sprintf("%s at %s (%s)", string(u), x.v.prog.Fset.Position(in.Pos()), in.String())
				cont = false
				return
			}
			panic(r)
		}
	}()
	switch t := in.(type) {
	case *ssa.DebugRef:
		x.debugRef(s, t)
		return true
	case *ssa.Alloc:
		et := t.Type().Underlying().(*types.Pointer).Elem()
		p := s.allocObj(et)
		p.T = t.Type()
		x.freshRef[p.S] = true
		s.env[t] = p
		s.setName(t.Comment, p, true)
	case *ssa.FieldAddr:
		if !x.atSite(s, in) {
			return false
		}
		p := x.val(s, t.X)
		st := p.T.Underlying().(*types.Pointer).Elem().Underlying().(*types.Struct)
		f := st.Field(t.Field)
		fp := Value{T: t.Type(), S: "0"}
		if p.LV == nil {
			if !x.freshRef[p.S] {
				o := x.ob("nil", x.sites[in], "nil dereference: "+t.X.Name()+"."+f.Name(), in)
				s.check(o, not(eq(p.S, "0")))
			}
			fp.LV = &LVal{Root: p.T.Underlying().(*types.Pointer).Elem(), Base: p.S, Path: "." + fieldName(f, t.Field)}
		} else {
			lv := *p.LV
			lv.Path += "." + fieldName(f, t.Field)
			fp.LV = &lv
		}
		s.env[t] = fp
	case *ssa.Field:
		v := x.val(s, t.X)
		s.env[t] = v.F[t.Field]
		r := s.env[t]
		if r.T == nil {
			r.T = t.Type()
			s.env[t] = r
		}
	case *ssa.IndexAddr:
		xv := x.val(s, t.X)
		iv := x.val(s, t.Index)
		switch u := xv.T.Underlying().(type) {
		case *types.Slice:
			o := x.ob("bounds", x.sites[in], "index out of range: "+t.X.Name()+"["+t.Index.Name()+"]", in)
			s.check(o, and(app("<=", "0", iv.S), app("<", iv.S, xv.F[2].S)))
			p := s.elemPtr(xv, iv.S)
			p.T = t.Type()
			s.env[t] = p
		case *types.Pointer: // pointer to array
			at := u.Elem().Underlying().(*types.Array)
			if xv.LV == nil && !x.freshRef[xv.S] {
				o := x.ob("nil", x.sites[in], "nil dereference of array pointer", in)
				s.check(o, not(eq(xv.S, "0")))
			}
			if _, isConst := t.Index.(*ssa.Const); !isConst {
				o := x.ob("bounds", x.sites[in], "array index out of range", in)
				s.check(o, and(app("<=", "0", iv.S), app("<", iv.S, fmt.Sprintf("%d", at.Len()))))
			}
			if xv.LV == nil {
				s.env[t] = Value{T: t.Type(), S: "0", LV: &LVal{Elem: true, Base: xv.S, Idx: iv.S, ElemT: at.Elem()}}
				break
			}
			if kindOf(u.Elem()) != kArray {
				panic(unsupported("index into embedded array of " + typeKey(at.Elem())))
			}
			xc := xv
			s.env[t] = Value{T: t.Type(), S: "0", LV: &LVal{ArrPtr: &xc, Idx: iv.S}}
		default:
			panic(unsupported("IndexAddr on " + typeKey(xv.T)))
		}
	case *ssa.Index:
		xv := x.val(s, t.X)
		iv := x.val(s, t.Index)
		switch kindOf(xv.T) {
		case kArray:
			at := xv.T.Underlying().(*types.Array)
			o := x.ob("bounds", x.sites[in], "array index out of range", in)
			s.check(o, and(app("<=", "0", iv.S), app("<", iv.S, fmt.Sprintf("%d", at.Len()))))
			s.env[t] = Value{T: t.Type(), S: sel(xv.S, iv.S)}
		case kStr:
			o := x.ob("bounds", x.sites[in], "string index out of range", in)
			s.check(o, and(app("<=", "0", iv.S), app("<", iv.S, app("str.len", xv.S))))
			s.env[t] = Value{T: t.Type(), S: app("str.to_code", app("str.at", xv.S, iv.S))}
		default:
			panic(unsupported("Index on " + typeKey(xv.T)))
		}
	case *ssa.UnOp:
		x.unop(s, t)
	case *ssa.BinOp:
		a, b := x.val(s, t.X), x.val(s, t.Y)
		if t.Op == token.QUO || t.Op == token.REM {
			if kindOf(a.T) == kInt {
				o := x.ob("div", x.sites[in], "division by zero", in)
				s.check(o, not(eq(b.S, "0")))
			}
		}
		// slice == nil tests the backing array only (a nil slice has no array; the
		// off/len words of a symbolic slice with a nil array carry no meaning):
		// the same reading as `s == nil` in contracts
		if (t.Op == token.EQL || t.Op == token.NEQ) && kindOf(a.T) == kSlice {
			var other *Value
			if c, ok := t.Y.(*ssa.Const); ok && c.IsNil() {
				other = &a
			} else if c, ok := t.X.(*ssa.Const); ok && c.IsNil() {
				other = &b
			}
			if other != nil {
				r := nilTest(*other)
				if t.Op == token.NEQ {
					r = not(r)
				}
				s.env[t] = Value{T: t.Type(), S: r}
				break
			}
		}
		s.env[t] = binop(t.Op, a, b, t.Type())
	case *ssa.Store:
		if !x.atSite(s, in) {
			return false
		}
		p := x.val(s, t.Addr)
		v := x.val(s, t.Val)
		if v.LV != nil {
			// an interior pointer escapes into memory: stored as an opaque non-nil token
			// (sound as long as it is not dereferenced after being loaded back)
			x.note("interior pointer stored to memory as an opaque token")
			name := "iptr_" + sanitize(typeKey(v.T))
			x.declareFun(name, []string{sInt, sStr}, sInt)
			base := v.LV.Base
			if base == "" {
				base = "0"
			}
			tok := app(name, base, strLit(v.LV.Path+v.LV.Global+v.LV.Idx))
			s.assume(app("<", "0", tok))
			v = Value{T: v.T, S: tok}
		}
		if v.Fn != nil && len(v.Fn.Bindings) > 0 {
			x.note("closure stored to memory: identity only")
		}
		x.frameCheckPtr(s, p, in)
		s.store(p, v)
	case *ssa.MakeMap:
		m := s.makeMap(t.Type())
		x.freshRef[m.S] = true
		s.env[t] = m
	case *ssa.MapUpdate:
		if !x.atSite(s, in) {
			return false
		}
		m := x.val(s, t.Map)
		k := x.val(s, t.Key)
		v := x.val(s, t.Value)
		o := x.ob("nilmap", x.sites[in], "assignment to entry in nil map", in)
		if !x.freshRef[m.S] {
			s.check(o, not(eq(m.S, "0")))
		}
		mt := m.T.Underlying().(*types.Map)
		has, ln, vals, _ := s.mapKeys(mt)
		x.frameCheck(s, has, m.S, in)
		_ = ln
		_ = vals
		s.mapUpdate(m, mapKeyTerm(k), v)
	case *ssa.Lookup:
		xv := x.val(s, t.X)
		k := x.val(s, t.Index)
		if kindOf(xv.T) == kStr {
			o := x.ob("bounds", x.sites[in], "string index out of range", in)
			s.check(o, and(app("<=", "0", k.S), app("<", k.S, app("str.len", xv.S))))
			s.env[t] = Value{T: t.Type(), S: app("str.to_code", app("str.at", xv.S, k.S))}
			break
		}
		v, present := s.mapLookup(s.heap, xv, mapKeyTerm(k))
		if t.CommaOk {
			s.env[t] = Value{T: t.Type(), F: []Value{v, {T: types.Typ[types.Bool], S: present}}}
		} else {
			s.env[t] = v
		}
	case *ssa.MakeSlice:
		ln := x.val(s, t.Len)
		o := x.ob("bounds", "makeslice", "makeslice: len out of range", in)
		s.check(o, app("<=", "0", ln.S))
		sl := s.makeSlice(t.Type(), ln.S)
		x.freshRef[sl.F[0].S] = true
		s.env[t] = sl
	case *ssa.Slice:
		x.sliceOp(s, t)
	case *ssa.Convert:
		s.env[t] = x.convert(s, x.val(s, t.X), t.Type())
	case *ssa.ChangeType:
		v := x.val(s, t.X)
		v.T = t.Type()
		s.env[t] = v
	case *ssa.ChangeInterface:
		v := x.val(s, t.X)
		v.T = t.Type()
		s.env[t] = v
	case *ssa.MakeInterface:
		s.env[t] = x.makeIface(s, x.val(s, t.X), t.Type())
	case *ssa.TypeAssert:
		x.typeAssert(s, t)
	case *ssa.Extract:
		tv := x.val(s, t.Tuple)
		r := tv.F[t.Index]
		if r.T == nil {
			r.T = t.Type()
		}
		s.env[t] = r
	case *ssa.Range:
		xv := x.val(s, t.X)
		it := &iterState{}
		if kindOf(xv.T) == kStr {
			it.isStr = true
			panic(unsupported("range over string"))
		}
		mt := xv.T.Underlying().(*types.Map)
		it.mapRef = xv.S
		it.mapT = mt
		ks := mapKeySort(mt)
		if ks == "" {
			panic(unsupported("range over map with key type " + typeKey(mt.Key())))
		}
		it.visited = "((as const " + arrSort(ks, sBool) + ") false)"
		s.iters[t] = it
		s.env[t] = Value{T: t.Type(), S: "0"}
	case *ssa.Next:
		x.next(s, t)
	case *ssa.MakeClosure:
		fn := t.Fn.(*ssa.Function)
		var bs []Value
		for _, b := range t.Bindings {
			bs = append(bs, x.val(s, b))
		}
		s.env[t] = Value{T: t.Type(), S: x.fresh("closure", sInt), Fn: &FnVal{Name: funcKey(fn), Fn: fn, Bindings: bs}}
	case *ssa.Call:
		return x.call(s, t, t.Common(), t)
	case *ssa.Defer:
		s.defers = append(s.defers, t)
	case *ssa.RunDefers:
		ds := s.defers
		s.defers = nil
		for i := len(ds) - 1; i >= 0; i-- {
			if !x.call(s, ds[i], ds[i].Common(), nil) {
				return false
			}
		}
	case *ssa.Go, *ssa.Select, *ssa.Send:
		panic(unsupported("concurrency instruction"))
	default:
		panic(unsupported(fmt.Sprintf("instruction %T", in)))
	}
	return true
}

func mapKeyTerm(k Value) string {
	if kindOf(k.T) == kIface || kindOf(k.T) == kStruct {
		panic(unsupported("map key of type " + typeKey(k.T)))
	}
	return k.S
}

func (x *Exec) unop(s *State, t *ssa.UnOp) {
	v := x.val(s, t.X)
	switch t.Op {
	case token.MUL: // load
		if v.LV == nil && !x.freshRef[v.S] {
			o := x.ob("nil", x.sites[t], "nil dereference: *"+t.X.Name(), t)
			s.check(o, not(eq(v.S, "0")))
		}
		r := s.load(v)
		s.env[t] = r
	case token.NOT:
		s.env[t] = Value{T: t.Type(), S: not(v.S)}
	case token.SUB:
		switch kindOf(v.T) {
		case kInt:
			s.env[t] = Value{T: t.Type(), S: wrapInt(app("-", v.S), t.Type(), true)}
		case kFP:
			s.env[t] = Value{T: t.Type(), S: app("fp.neg", v.S)}
		default:
			panic(unsupported("negation"))
		}
	case token.ARROW:
		panic(unsupported("channel receive"))
	default:
		panic(unsupported("unary " + t.Op.String()))
	}
}

func binop(op token.Token, a, b Value, rt types.Type) Value {
	k := kindOf(a.T)
	if op == token.EQL {
		return Value{T: rt, S: valuesEqual(a, b)}
	}
	if op == token.NEQ {
		return Value{T: rt, S: not(valuesEqual(a, b))}
	}
	switch k {
	case kBool:
		switch op {
		case token.AND, token.LAND:
			return Value{T: rt, S: and(a.S, b.S)}
		case token.OR, token.LOR:
			return Value{T: rt, S: or(a.S, b.S)}
		}
	case kInt, kTime:
		switch op {
		case token.ADD:
			return Value{T: rt, S: wrapInt(app("+", a.S, b.S), rt, true)}
		case token.SUB:
			return Value{T: rt, S: wrapInt(app("-", a.S, b.S), rt, true)}
		case token.MUL:
			return Value{T: rt, S: wrapInt(app("*", a.S, b.S), rt, false)}
		case token.QUO:
			// Go truncates toward zero; SMT div is floor for positive divisor
			q := ite(app(">=", a.S, "0"),
				ite(app(">", b.S, "0"), app("div", a.S, b.S), app("-", app("div", a.S, app("-", b.S)))),
				ite(app(">", b.S, "0"), app("-", app("div", app("-", a.S), b.S)), app("div", app("-", a.S), app("-", b.S))))
			return Value{T: rt, S: wrapInt(q, rt, true)}
		case token.REM:
			r := ite(app(">=", a.S, "0"), app("mod", a.S, app("abs", b.S)), app("-", app("mod", app("-", a.S), app("abs", b.S))))
			return Value{T: rt, S: r}
		case token.LSS:
			return Value{T: rt, S: app("<", a.S, b.S)}
		case token.LEQ:
			return Value{T: rt, S: app("<=", a.S, b.S)}
		case token.GTR:
			return Value{T: rt, S: app(">", a.S, b.S)}
		case token.GEQ:
			return Value{T: rt, S: app(">=", a.S, b.S)}
		}
	case kFP:
		switch op {
		case token.ADD:
			return Value{T: rt, S: app("fp.add", "RNE", a.S, b.S)}
		case token.SUB:
			return Value{T: rt, S: app("fp.sub", "RNE", a.S, b.S)}
		case token.MUL:
			return Value{T: rt, S: app("fp.mul", "RNE", a.S, b.S)}
		case token.QUO:
			return Value{T: rt, S: app("fp.div", "RNE", a.S, b.S)}
		case token.LSS:
			return Value{T: rt, S: app("fp.lt", a.S, b.S)}
		case token.LEQ:
			return Value{T: rt, S: app("fp.leq", a.S, b.S)}
		case token.GTR:
			return Value{T: rt, S: app("fp.gt", a.S, b.S)}
		case token.GEQ:
			return Value{T: rt, S: app("fp.geq", a.S, b.S)}
		}
	case kStr:
		switch op {
		case token.ADD:
			return Value{T: rt, S: app("str.++", a.S, b.S)}
		case token.LSS:
			return Value{T: rt, S: app("str.<", a.S, b.S)}
		case token.LEQ:
			return Value{T: rt, S: app("str.<=", a.S, b.S)}
		case token.GTR:
			return Value{T: rt, S: app("str.<", b.S, a.S)}
		case token.GEQ:
			return Value{T: rt, S: app("str.<=", b.S, a.S)}
		}
	}
	panic(unsupported(fmt.Sprintf("binary %s on %s", op, typeKey(a.T))))
}

func (x *Exec) sliceOp(s *State, t *ssa.Slice) {
	xv := x.val(s, t.X)
	lo := "0"
	if t.Low != nil {
		lo = x.val(s, t.Low).S
	}
	switch kindOf(xv.T) {
	case kStr:
		hi := app("str.len", xv.S)
		if t.High != nil {
			hi = x.val(s, t.High).S
		}
		o := x.ob("bounds", x.sites[t], "string slice bounds out of range", t)
		s.check(o, and(app("<=", "0", lo), app("<=", lo, hi), app("<=", hi, app("str.len", xv.S))))
		s.env[t] = Value{T: t.Type(), S: app("str.substr", xv.S, lo, app("-", hi, lo))}
	case kSlice:
		hi := xv.F[2].S
		if t.High != nil {
			hi = x.val(s, t.High).S
		}
		// capacity is not modelled: slicing beyond len is reported
		o := x.ob("bounds", x.sites[t], "slice bounds out of range (capacity abstracted to len)", t)
		s.check(o, and(app("<=", "0", lo), app("<=", lo, hi), app("<=", hi, xv.F[2].S)))
		s.env[t] = sliceVal(t.Type(), xv.F[0].S, app("+", xv.F[1].S, lo), app("-", hi, lo))
		x.subBytes(s, xv, s.env[t], lo, app("-", hi, lo))
	case kRef: // pointer to array
		pt, ok := xv.T.Underlying().(*types.Pointer)
		if !ok || xv.LV != nil {
			panic(unsupported("slice of embedded array"))
		}
		at := pt.Elem().Underlying().(*types.Array)
		n := fmt.Sprintf("%d", at.Len())
		hi := n
		if t.High != nil {
			hi = x.val(s, t.High).S
		}
		if t.Low != nil || t.High != nil {
			o := x.ob("bounds", x.sites[t], "slice bounds out of range", t)
			s.check(o, and(app("<=", "0", lo), app("<=", lo, hi), app("<=", hi, n)))
		}
		s.env[t] = sliceVal(t.Type(), xv.S, lo, app("-", hi, lo))
		x.subBytes(s, sliceVal(t.Type(), xv.S, "0", n), s.env[t], lo, app("-", hi, lo))
	default:
		panic(unsupported("slice of " + typeKey(xv.T)))
	}
}

func (x *Exec) convert(s *State, v Value, to types.Type) Value {
	kf, kt := kindOf(v.T), kindOf(to)
	switch {
	case kf == kInt && kt == kInt:
		flo, fhi, ok1 := intRange(v.T)
		tlo, thi, ok2 := intRange(to)
		if ok1 && ok2 && flo == tlo && fhi == thi {
			return Value{T: to, S: v.S}
		}
		return Value{T: to, S: wrapInt(v.S, to, false)}
	case kf == kInt && kt == kFP:
		return Value{T: to, S: x.intToFloat(s, v.S)}
	case kf == kFP && kt == kFP:
		return Value{T: to, S: v.S}
	case kf == kStr && kt == kStr:
		return Value{T: to, S: v.S}
	case kf == kStr && kt == kSlice:
		// []byte(s): fresh array whose content string is s
		sl := s.makeSlice(to, app("str.len", v.S))
		x.freshRef[sl.F[0].S] = true
		s.assume(eq(x.bytesStr(s, s.heap, sl), v.S))
		return sl
	case kf == kSlice && kt == kStr:
		return Value{T: to, S: x.bytesStr(s, s.heap, v)}
	case kf == kRef && kt == kRef:
		return Value{T: to, S: v.S, LV: v.LV}
	}
	panic(unsupported(fmt.Sprintf("conversion %s -> %s", typeKey(v.T), typeKey(to))))
}

// bytesStr: the content of a []byte as a String: an uninterpreted function of
// the backing array's contents, offset and length.
func (x *Exec) bytesStr(s *State, hp *Heap, sl Value) string {
	st := sl.T.Underlying().(*types.Slice)
	prefix := "E:" + typeKey(st.Elem())
	s.regLeaves(prefix, st.Elem(), true)
	x.declareFun("bytes_str", []string{arrSort(sInt, sInt), sInt, sInt}, sStr)
	inner := s.read(hp, prefix, sl.F[0].S)
	t := app("bytes_str", inner, sl.F[1].S, sl.F[2].S)
	s.assume(eq(app("str.len", t), sl.F[2].S))
	return t
}

func (x *Exec) typeAssert(s *State, t *ssa.TypeAssert) {
	v := x.val(s, t.X)
	tag, box := v.F[0].S, v.F[1].S
	at := t.AssertedType
	if kindOf(at) == kIface {
		// assertion to an interface type: succeeds iff non-nil and implements; the
		// method-set check is not modelled (treated as succeeding for non-nil values
		// when the static type already implements it; otherwise unknown)
		ok := not(eq(tag, "0"))
		if !types.Implements(v.T, at.Underlying().(*types.Interface)) && !types.AssertableTo(at.Underlying().(*types.Interface), v.T) {
			ok = "false"
		}
		impl := x.fresh("implements", sBool)
		if types.Implements(v.T, at.Underlying().(*types.Interface)) {
			s.assume(impl)
		} else {
			x.note("type assertion to interface " + shortType(at) + ": method-set test is an unconstrained boolean")
		}
		ok = and(ok, impl)
		r := Value{T: at, F: v.F}
		if t.CommaOk {
			z := zeroValue(at)
			r = Value{T: at, F: []Value{{S: ite(ok, tag, z.F[0].S)}, {S: ite(ok, box, z.F[1].S)}}}
			s.env[t] = Value{T: t.Type(), F: []Value{r, {T: types.Typ[types.Bool], S: ok}}}
		} else {
			o := x.ob("typeassert", x.sites[t], "interface conversion may panic: "+t.X.Name()+".("+shortType(at)+")", t)
			s.check(o, ok)
			s.env[t] = r
		}
		return
	}
	want := x.v.tagOf(at)
	ok := eq(tag, want)
	uv := x.unbox(s, box, at)
	if t.CommaOk {
		x.assumeBoxed(s, box, at, ok)
		z := zeroValue(at)
		fu, fz := flatten(uv), flatten(z)
		terms := make([]string, len(fu))
		for i := range fu {
			terms[i] = ite(ok, fu[i], fz[i])
		}
		r := build(at, &terms)
		s.env[t] = Value{T: t.Type(), F: []Value{r, {T: types.Typ[types.Bool], S: ok}}}
		return
	}
	o := x.ob("typeassert", x.sites[t], "interface conversion may panic: "+t.X.Name()+".("+shortType(at)+")", t)
	s.check(o, ok)
	x.assumeBoxed(s, box, at, "true")
	s.env[t] = uv
}

func (x *Exec) next(s *State, t *ssa.Next) {
	it := s.iters[t.Iter]
	if it == nil || it.isStr {
		panic(unsupported("next on unknown iterator"))
	}
	mt := it.mapT
	ks := mapKeySort(mt)
	ok := x.fresh("next_ok", sBool)
	k := x.fresh("next_key", ks)
	m := Value{T: mt, S: it.mapRef}
	has, _, _, _ := s.mapKeys(mt)
	present := s.read(s.heap, has, it.mapRef, k)
	s.assume(imp(ok, and(present, not(sel(it.visited, k)))))
	// exhaustion: when the iterator is done every present key has been visited.
	// A universal fact, instantiated at every key term the path mentions.
	{
		hp := s.heap.clone()
		vis := it.visited
		ref := it.mapRef
		u := &universal{vars: []AnyVar{{"k", ""}}, types: []types.Type{mt.Key()}, sorts: []string{ks}, done: map[string]bool{}}
		u.gen = func(st *State, chosen []string) string {
			pc := st.read(hp, has, ref, chosen[0])
			return imp(not(ok), imp(pc, sel(vis, chosen[0])))
		}
		s.univ = append(s.univ, u)
		s.instantiate(u)
	}
	s.trigger(ks, k)
	v, _ := s.mapLookup(s.heap, m, k)
	it.visited = ite(ok, sto(it.visited, k, "true"), it.visited)
	kv := Value{T: mt.Key(), S: k}
	s.assumeRangesGuard(kv, ok)
	tup := Value{T: t.Type(), F: []Value{{T: types.Typ[types.Bool], S: ok}, kv, v}}
	s.env[t] = tup
}

func (s *State) assumeRangesGuard(v Value, g string) {
	ls := leavesOf(v.T)
	ts := flatten(v)
	for i, l := range ls {
		if l.K == kInt && l.T != nil {
			if lo, hi, ok := intRange(l.T); ok {
				s.assume(imp(g, and(app("<=", lo, ts[i]), app("<=", ts[i], hi))))
			}
		}
	}
}

// instKeys: terms of the given sort at which universally quantified map
// facts are instantiated: the contract's skolem constants.
func (x *Exec) instKeys(s *State, sort string) []string {
	var out []string
	for _, v := range x.anyVals {
		ls := leavesOf(v.T)
		if len(ls) == 1 && ls[0].Sort == sort {
			out = append(out, v.S)
		}
	}
	return out
}

// intToFloat: float64(i). In the default (mathematical-integer) mode the
// conversion is an uninterpreted function with the facts that hold for
// round-to-nearest conversion of a 64-bit integer: finite, sign-preserving,
// monotone (instantiated pairwise). Bit-precise reasoning is available in
// functions verified in bit-vector mode.
func (x *Exec) intToFloat(s *State, i string) string {
	x.declareFun("i2f", []string{sInt}, sFP)
	x.note("int->float64 conversion is an uninterpreted monotone function in Int mode (bit-precise in bv mode)")
	t := app("i2f", i)
	key := "i2f|" + i
	if s.inst[key] {
		return t
	}
	s.inst[key] = true
	s.assume(and(not(app("fp.isNaN", t)), not(app("fp.isInfinite", t))))
	s.assume(imp(app(">=", i, "0"), not(app("fp.isNegative", t))))
	s.assume(imp(app("<", i, "0"), app("fp.isNegative", t)))
	s.assume(imp(eq(i, "0"), app("fp.isZero", t)))
	for k := range s.inst {
		if len(k) > 4 && k[:4] == "i2f|" && k != key {
			j := k[4:]
			u := app("i2f", j)
			s.assume(imp(app("<=", i, j), app("fp.leq", t, u)))
			s.assume(imp(app("<=", j, i), app("fp.leq", u, t)))
		}
	}
	return t
}


// Source-level names. In debug mode go/ssa records which SSA value each
// source expression denotes; executing a record binds the name on this path.
//   - the record for an assigned identifier is emitted after the store and
//     carries the stored value — except for x := T{...} / x = T{...}, which is
//     initialised in place: there the record is emitted before the stores and
//     (after lifting) denotes the OLD value, so it is dropped and the composite
//     literal's own record binds the name;
//   - the record for the right-hand side expression of an assignment gives the
//     value being stored (bound to the assigned name when the types agree);
//   - identifiers read inside the right-hand side of an assignment to the same
//     name (x = f(x), a, b = b, a) denote the old value and bind nothing.
type assignInfo struct {
	lhs      map[*ast.Ident]ast.Expr   // assigned identifier -> its own right-hand side (nil: tuple / none / compound)
	rhs      map[ast.Expr][]*ast.Ident // right-hand side expression -> assigned identifiers (by position; nil entries skipped)
	noBind   map[*ast.Ident]bool       // reads of a name inside an assignment to that name
	declType map[*ast.Ident]types.Type
}

func (x *Exec) assignInfo() *assignInfo {
	if x.ai != nil {
		return x.ai
	}
	ai := &assignInfo{lhs: map[*ast.Ident]ast.Expr{}, rhs: map[ast.Expr][]*ast.Ident{}, noBind: map[*ast.Ident]bool{}}
	x.ai = ai
	syn := x.fn.Syntax()
	if syn == nil {
		return ai
	}
	record := func(lhs []ast.Expr, rhs []ast.Expr, simple bool) {
		names := map[string]bool{}
		ids := make([]*ast.Ident, len(lhs))
		for i, l := range lhs {
			if id, ok := l.(*ast.Ident); ok {
				ai.lhs[id] = nil
				if id.Name != "_" {
					ids[i] = id
					names[id.Name] = true
				}
			}
		}
		for _, r := range rhs {
			ast.Inspect(r, func(n ast.Node) bool {
				if _, isLit := n.(*ast.FuncLit); isLit {
					return false
				}
				if id, ok := n.(*ast.Ident); ok && names[id.Name] {
					ai.noBind[id] = true
				}
				return true
			})
		}
		if !simple {
			return
		}
		if len(lhs) == len(rhs) {
			for i, r := range rhs {
				if ids[i] != nil {
					r = ast.Unparen(r)
					ai.lhs[ids[i]] = r
					ai.rhs[r] = append(ai.rhs[r], ids[i])
				}
			}
		} else if len(rhs) == 1 {
			r := ast.Unparen(rhs[0])
			ai.rhs[r] = ids
		}
	}
	ast.Inspect(syn, func(n ast.Node) bool {
		switch t := n.(type) {
		case *ast.AssignStmt:
			record(t.Lhs, t.Rhs, t.Tok == token.ASSIGN || t.Tok == token.DEFINE)
		case *ast.IncDecStmt:
			record([]ast.Expr{t.X}, nil, false)
		case *ast.RangeStmt:
			var l []ast.Expr
			if t.Key != nil {
				l = append(l, t.Key)
			}
			if t.Value != nil {
				l = append(l, t.Value)
			}
			record(l, nil, false)
		case *ast.ValueSpec:
			var l []ast.Expr
			for _, nm := range t.Names {
				l = append(l, nm)
			}
			record(l, t.Values, true)
		}
		return true
	})
	return ai
}

// inMemory: the identifier denotes a variable that lives in memory (go/ssa
// gave it an Alloc): its name keeps denoting the cell (bound at the Alloc)
// and the current contents are read back through it.
func (x *Exec) inMemory(id *ast.Ident) bool {
	info := x.v.infos[x.fn.Pkg.Pkg.Path()]
	if info == nil {
		return false
	}
	o := info.Defs[id]
	if o == nil {
		o = info.Uses[id]
	}
	if o == nil {
		return false
	}
	if x.allocPos == nil {
		x.allocPos = map[token.Pos]bool{}
		for _, b := range x.fn.Blocks {
			for _, in := range b.Instrs {
				if a, ok := in.(*ssa.Alloc); ok && a.Pos().IsValid() {
					x.allocPos[a.Pos()] = true
				}
			}
		}
	}
	return x.allocPos[o.Pos()]
}

func (x *Exec) debugRef(s *State, t *ssa.DebugRef) {
	ai := x.assignInfo()
	expr := ast.Unparen(t.Expr)
	// 1. this expression is what an assignment stores
	bindStored := func() {
		ids, ok := ai.rhs[expr]
		if !ok || t.IsAddr {
			return
		}
		v, ok := s.env[t.X]
		if !ok {
			if c, isC := t.X.(*ssa.Const); isC {
				v = x.constVal(c)
			} else {
				return
			}
		}
		info := x.v.infos[x.fn.Pkg.Pkg.Path()]
		typeOf := func(id *ast.Ident) types.Type {
			if info == nil {
				return nil
			}
			if o := info.Defs[id]; o != nil {
				return o.Type()
			}
			if o := info.Uses[id]; o != nil {
				return o.Type()
			}
			return nil
		}
		inMemory := x.inMemory
		if len(ids) == 1 && kindOf(v.T) != kTuple {
			if id := ids[0]; id != nil && !inMemory(id) {
				if vt := typeOf(id); vt != nil && v.T != nil && types.Identical(vt, v.T) {
					s.setName(id.Name, v, false)
				}
			}
			return
		}
		if kindOf(v.T) == kTuple && len(v.F) == len(ids) {
			for i, id := range ids {
				if id == nil || inMemory(id) {
					continue
				}
				f := v.F[i]
				if vt := typeOf(id); vt != nil && f.T != nil && types.Identical(vt, f.T) {
					s.setName(id.Name, f, false)
				}
			}
		}
	}
	id, isIdent := expr.(*ast.Ident)
	if !isIdent {
		bindStored()
		return
	}
	if os.Getenv("GOWP_NAMES") == id.Name {
		_, isL := ai.lhs[id]
		fmt.Fprintf(os.Stderr, "debugref %s at %s X=%s %T lhs=%v nobind=%v\n", id.Name, x.v.prog.Fset.Position(t.Pos()), t.X.Name(), t.X, isL, ai.noBind[id])
	}
	if rhs, isL := ai.lhs[id]; isL {
		if a, ok := t.X.(*ssa.Alloc); ok && t.IsAddr {
			// a variable that lives in memory: the name denotes the cell
			if p, ok := s.env[a]; ok {
				s.setName(id.Name, p, true)
			}
			return
		}
		if _, isLit := rhs.(*ast.CompositeLit); isLit {
			// in-place initialisation: the builder takes the variable's address
			// BEFORE storing the literal, so after lifting this record denotes
			// the old value; the literal's own record binds the name
			delete(s.names, id.Name)
			return
		}
		// every other assignment records the identifier after the store, with
		// the stored value: an ordinary binding (below)
	}
	// 2. a read of the variable
	if !t.IsAddr && x.inMemory(id) {
		// a variable that lives in memory keeps denoting its cell
		return
	}
	if !ai.noBind[id] {
		if _, isParam := x.params[id.Name]; isParam {
			if _, ok := t.X.(*ssa.Parameter); ok {
				bindStored()
				return
			}
		}
		if t.IsAddr {
			if a, ok := t.X.(*ssa.Alloc); ok {
				if p, ok := s.env[a]; ok {
					s.setName(id.Name, p, true)
				}
			}
		} else {
			switch xv := t.X.(type) {
			case *ssa.Const:
				s.setName(id.Name, x.constVal(xv), false)
			case *ssa.Function, *ssa.Builtin:
			default:
				if v, ok := s.env[t.X]; ok {
					s.setName(id.Name, v, false)
				}
			}
		}
	}
	bindStored()
}


// subBytes: the content string of a sub-slice of a byte slice is the
// corresponding substring of the parent's content string (a fact about the
// abstraction bytes_str, which stands for the actual bytes).
func (x *Exec) subBytes(s *State, parent, child Value, lo, n string) {
	st, ok := child.T.Underlying().(*types.Slice)
	if !ok {
		return
	}
	if b, ok := st.Elem().Underlying().(*types.Basic); !ok || (b.Kind() != types.Uint8 && b.Kind() != types.Byte) {
		return
	}
	parent.T = child.T
	s.assume(eq(x.bytesStr(s, s.heap, child), app("str.substr", x.bytesStr(s, s.heap, parent), lo, n)))
}
