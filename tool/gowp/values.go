package main

// Go types -> symbolic value shapes (leaves with SMT sorts), zero values, heap keys.

import (
	"fmt"
	"go/types"
	"regexp"
	"strings"
	"sync"
)

type kind int

const (
	kBool kind = iota
	kInt
	kFP
	kStr
	kRef   // pointer, map, chan, func, unsafe.Pointer
	kTime  // time.Time as Int nanoseconds since the Unix epoch (wall clock)
	kOpaque // anything not modelled: an Int token
	kSlice // composite: arr, off, len
	kIface // composite: tag, box
	kStruct
	kTuple
	kArray // value array [N]T with leaf element: one leaf of sort (Array Int elem)
)

// Value is a symbolic Go value.
type Value struct {
	T  types.Type
	S  string  // leaf term
	F  []Value // children for composite kinds
	LV *LVal   // pointers only: interior-pointer description (nil: root pointer at address S)
	Fn *FnVal  // func values: statically known callee + bindings
}

// LVal describes a pointer into the middle of an object or to a slice element.
type LVal struct {
	Root     types.Type // type of the enclosing allocated object (for field pointers)
	Base     string     // address of the enclosing object (field) / array id (elem)
	Path     string     // leaf-path prefix inside Root / inside the element type
	Elem     bool       // slice element pointer
	Idx      string     // element index (absolute, off already added)
	ElemT    types.Type // element type for Elem pointers
	Global   string     // non-empty: package-level variable (scalar heap cells "G:<Global><path>")
	ArrPtr   *Value     // element of a value array: pointer to the array cell
}

type FnVal struct {
	Name     string
	Bindings []Value
	Fn       interface{} // *ssa.Function
}

const timeZeroNS = "(- 62135596800000000000)"

func isNamed(t types.Type, pkg, name string) bool {
	n, ok := t.(*types.Named)
	if !ok {
		if a, ok2 := t.(*types.Alias); ok2 {
			return isNamed(types.Unalias(a), pkg, name)
		}
		return false
	}
	o := n.Obj()
	return o.Name() == name && o.Pkg() != nil && o.Pkg().Path() == pkg
}

func kindOf(t types.Type) kind {
	if t == nil {
		return kTuple
	}
	if isNamed(t, "time", "Time") {
		return kTime
	}
	if isNamed(t, "github.com/jrhy/mast", "Mast") {
		// a mast.Mast value is modelled as a reference to an immutable abstract
		// snapshot (finite map); mutation replaces the snapshot id
		return kRef
	}
	switch u := t.Underlying().(type) {
	case *types.Basic:
		switch {
		case u.Info()&types.IsBoolean != 0:
			return kBool
		case u.Info()&types.IsInteger != 0:
			return kInt
		case u.Info()&types.IsFloat != 0:
			return kFP
		case u.Info()&types.IsString != 0:
			return kStr
		case u.Kind() == types.UnsafePointer:
			return kRef
		case u.Kind() == types.UntypedNil:
			return kRef
		}
		return kOpaque
	case *types.Pointer, *types.Map, *types.Chan, *types.Signature:
		return kRef
	case *types.Slice:
		return kSlice
	case *types.Interface:
		return kIface
	case *types.Struct:
		return kStruct
	case *types.Tuple:
		return kTuple
	case *types.Array:
		if k := kindOf(u.Elem()); k == kInt || k == kBool {
			return kArray
		}
		return kOpaque
	case *types.TypeParam:
		return kOpaque
	}
	return kOpaque
}

func sortOfLeaf(k kind, t types.Type) string {
	switch k {
	case kBool:
		return sBool
	case kFP:
		return sFP
	case kStr:
		return sStr
	case kArray:
		a := t.Underlying().(*types.Array)
		return arrSort(sInt, sortOfLeaf(kindOf(a.Elem()), a.Elem()))
	}
	return sInt
}

type leaf struct {
	Path string
	Sort string
	K    kind
	T    types.Type
}

var leafCache = map[string][]leaf{}
var leafMu sync.Mutex

var reByte = regexp.MustCompile(`\bbyte\b`)
var reRune = regexp.MustCompile(`\brune\b`)
var reAny = regexp.MustCompile(`\bany\b`)

// typeKey: canonical type string (byte/uint8, rune/int32, any/interface{} are identical types)
func typeKey(t types.Type) string {
	if t == nil {
		return "<nil>"
	}
	s := types.TypeString(t, nil)
	if strings.Contains(s, "byte") {
		s = reByte.ReplaceAllString(s, "uint8")
	}
	if strings.Contains(s, "rune") {
		s = reRune.ReplaceAllString(s, "int32")
	}
	if strings.Contains(s, "any") {
		s = reAny.ReplaceAllString(s, "interface{}")
	}
	return s
}

// leavesOf lists the leaves of a value of type t in a fixed order.
func leavesOf(t types.Type) []leaf {
	key := typeKey(t)
	leafMu.Lock()
	if l, ok := leafCache[key]; ok {
		leafMu.Unlock()
		return l
	}
	leafMu.Unlock()
	var out []leaf
	k := kindOf(t)
	switch k {
	case kSlice:
		out = []leaf{{".arr", sInt, kRef, nil}, {".off", sInt, kInt, nil}, {".len", sInt, kInt, nil}}
	case kIface:
		out = []leaf{{".tag", sInt, kInt, nil}, {".box", sInt, kOpaque, nil}}
	case kStruct:
		st := t.Underlying().(*types.Struct)
		for i := 0; i < st.NumFields(); i++ {
			f := st.Field(i)
			for _, l := range leavesOf(f.Type()) {
				out = append(out, leaf{"." + fieldName(f, i) + l.Path, l.Sort, l.K, l.T})
			}
		}
	case kTuple:
		tu := t.(*types.Tuple)
		for i := 0; i < tu.Len(); i++ {
			for _, l := range leavesOf(tu.At(i).Type()) {
				out = append(out, leaf{fmt.Sprintf(".%d%s", i, l.Path), l.Sort, l.K, l.T})
			}
		}
	default:
		out = []leaf{{"", sortOfLeaf(k, t), k, t}}
	}
	leafMu.Lock()
	leafCache[key] = out
	leafMu.Unlock()
	return out
}

func fieldName(f *types.Var, i int) string {
	if f.Name() == "_" {
		return fmt.Sprintf("_%d", i)
	}
	return f.Name()
}

func zeroOfSort(sort string) string {
	switch sort {
	case sBool:
		return "false"
	case sFP:
		return "(_ +zero 11 53)"
	case sStr:
		return `""`
	case sInt:
		return "0"
	}
	if strings.HasPrefix(sort, "(Array ") {
		// (Array I E)
		inner := sort[len("(Array ") : len(sort)-1]
		// split index sort and elem sort
		i := splitSort(inner)
		return "((as const " + sort + ") " + zeroOfSort(inner[i+1:]) + ")"
	}
	return "0"
}

func splitSort(s string) int { // index of the space separating two sorts
	depth := 0
	for i := 0; i < len(s); i++ {
		switch s[i] {
		case '(':
			depth++
		case ')':
			depth--
		case ' ':
			if depth == 0 {
				return i
			}
		}
	}
	return -1
}

func zeroLeaf(l leaf) string {
	if l.K == kTime {
		return timeZeroNS
	}
	return zeroOfSort(l.Sort)
}

// build reconstructs a Value of type t from leaf terms (consumes from *terms).
func build(t types.Type, terms *[]string) Value {
	k := kindOf(t)
	take := func() string {
		s := (*terms)[0]
		*terms = (*terms)[1:]
		return s
	}
	switch k {
	case kSlice, kIface:
		n := len(leavesOf(t))
		v := Value{T: t}
		for i := 0; i < n; i++ {
			v.F = append(v.F, Value{S: take()})
		}
		return v
	case kStruct:
		st := t.Underlying().(*types.Struct)
		v := Value{T: t}
		for i := 0; i < st.NumFields(); i++ {
			v.F = append(v.F, build(st.Field(i).Type(), terms))
		}
		return v
	case kTuple:
		tu := t.(*types.Tuple)
		v := Value{T: t}
		for i := 0; i < tu.Len(); i++ {
			v.F = append(v.F, build(tu.At(i).Type(), terms))
		}
		return v
	}
	return Value{T: t, S: take()}
}

// flatten lists the leaf terms of v in leavesOf order.
func flatten(v Value) []string {
	switch kindOf(v.T) {
	case kSlice, kIface, kStruct, kTuple:
		if v.T == nil && len(v.F) == 0 && v.S != "" {
			return []string{v.S}
		}
		var out []string
		for _, f := range v.F {
			out = append(out, flatten(f)...)
		}
		return out
	}
	return []string{v.S}
}

func zeroValue(t types.Type) Value {
	ls := leavesOf(t)
	terms := make([]string, len(ls))
	for i, l := range ls {
		terms[i] = zeroLeaf(l)
	}
	return build(t, &terms)
}

func sliceVal(t types.Type, arr, off, ln string) Value {
	return Value{T: t, F: []Value{{S: arr}, {S: off}, {S: ln}}}
}
func ifaceVal(t types.Type, tag, box string) Value {
	return Value{T: t, F: []Value{{S: tag}, {S: box}}}
}

// integer ranges
func intRange(t types.Type) (lo, hi string, ok bool) {
	b, isB := t.Underlying().(*types.Basic)
	if !isB {
		return "", "", false
	}
	switch b.Kind() {
	case types.Int8:
		return "(- 128)", "127", true
	case types.Int16:
		return "(- 32768)", "32767", true
	case types.Int32:
		return "(- 2147483648)", "2147483647", true
	case types.Int, types.Int64:
		return "(- 9223372036854775808)", "9223372036854775807", true
	case types.Uint8:
		return "0", "255", true
	case types.Uint16:
		return "0", "65535", true
	case types.Uint32:
		return "0", "4294967295", true
	case types.Uint, types.Uint64, types.Uintptr:
		return "0", "18446744073709551615", true
	case types.UntypedInt, types.UntypedRune:
		return "", "", false
	}
	return "", "", false
}

func intBits(t types.Type) (bits int, signed bool) {
	b, isB := t.Underlying().(*types.Basic)
	if !isB {
		return 64, true
	}
	switch b.Kind() {
	case types.Int8:
		return 8, true
	case types.Int16:
		return 16, true
	case types.Int32:
		return 32, true
	case types.Int, types.Int64:
		return 64, true
	case types.Uint8:
		return 8, false
	case types.Uint16:
		return 16, false
	case types.Uint32:
		return 32, false
	case types.Uint, types.Uint64, types.Uintptr:
		return 64, false
	}
	return 64, true
}

func pow2(n int) string {
	switch n {
	case 7:
		return "128"
	case 8:
		return "256"
	case 15:
		return "32768"
	case 16:
		return "65536"
	case 31:
		return "2147483648"
	case 32:
		return "4294967296"
	case 63:
		return "9223372036854775808"
	case 64:
		return "18446744073709551616"
	}
	panic("pow2")
}

// wrapInt wraps a mathematical integer term into the range of t. exactAddSub
// says the term is the sum/difference of two in-range values (so one
// correction step suffices and no mod is needed).
func wrapInt(term string, t types.Type, oneStep bool) string {
	lo, hi, ok := intRange(t)
	if !ok {
		return term
	}
	bits, signed := intBits(t)
	m := pow2(bits)
	if oneStep {
		return ite(app(">", term, hi), app("-", term, m), ite(app("<", term, lo), app("+", term, m), term))
	}
	if signed {
		h := pow2(bits - 1)
		return app("-", app("mod", app("+", term, h), m), h)
	}
	return app("mod", term, m)
}
