#!/usr/bin/env python3
"""mutate.py: mechanical mutation campaign over the functions under contract.
One syntactic change per mutant (negated condition, relational / equality / boolean
operator swap, boolean literal flip, off-by-one on +1/-1); the enclosing function (and
its closures) is re-verified on a scratch copy. A mutant that still verifies is a
SURVIVOR: either equivalent, or a place where the contracts do not pin the code down.
Usage: mutate.py [file-filter-regexp] [max-per-file]; report: selftest/mutation_report.json"""
import re, os, sys, subprocess, shutil, tempfile, json
REPO='/repo'; GOWP=os.environ.get('GOWP','/verif/bin/gowp')
files=['vtable_common.go','open.go','key.go','row.go','kv/kv.go','kv/crypto.go','kv/crdt/crdt.go','kv/internal/crdt/crdt.go','sqlite/vtable.go','sqlite/s3db_changes.go','sqlite/s3db_conn.go','sqlite/s3db_refresh.go','sqlite/s3db_version.go','sqlite/vacuum.go','writetime/context.go','kv/crdt/value.go','internal/unquote.go','kv/encode_gob.go']
pkgof={'':'github.com/jrhy/s3db','kv':'github.com/jrhy/s3db/kv','kv/crdt':'github.com/jrhy/s3db/kv/crdt','kv/internal/crdt':'github.com/jrhy/s3db/kv/internal/crdt','sqlite':'github.com/jrhy/s3db/sqlite','writetime':'github.com/jrhy/s3db/writetime','internal':'github.com/jrhy/s3db/internal'}
flt=re.compile(sys.argv[1]) if len(sys.argv)>1 else None
contracted={}
for d in pkgof:
    p=os.path.join(REPO,d,'zz_verif_contracts.go')
    if not os.path.exists(p): continue
    cur=None
    for l in open(p):
        m=re.match(r'//@ func (\S+)',l)
        if m: cur=pkgof[d]+'.'+m.group(1); contracted[cur]=True
        elif re.match(r'//@\s+trusted',l) and cur: contracted[cur]=False
ops=[(r'^(\t+)if (.+) \{$', lambda m: '%sif !(%s) {'%(m.group(1),m.group(2)), 'negate-if'),
     (r' < ', lambda m:' <= ','lt-le'),(r' <= ', lambda m:' < ','le-lt'),(r' > ', lambda m:' >= ','gt-ge'),(r' >= ', lambda m:' > ','ge-gt'),
     (r' == ', lambda m:' != ','eq-ne'),(r' != ', lambda m:' == ','ne-eq'),(r' && ', lambda m:' || ','and-or'),(r' \|\| ', lambda m:' && ','or-and'),
     (r'\btrue\b', lambda m:'false','true-false'),(r'\bfalse\b', lambda m:'true','false-true'),
     (r' \+ 1\b', lambda m:' + 2','plus1'),(r' - 1\b', lambda m:' - 2','minus1')]
fun=re.compile(r'^func (\((\w+ )?(\*?)(\w+)\) )?(\w+)\(',re.M)
tmp=tempfile.mkdtemp(prefix='mut')
scratch=os.path.join(tmp,'repo')
shutil.copytree(REPO,scratch,ignore=shutil.ignore_patterns('.git'))
known=('no-cache-remembers','not-discarded','later-statement-wins')
res=[]
for f in files:
    if flt and not flt.search(f): continue
    path=os.path.join(REPO,f)
    if not os.path.exists(path): continue
    src=open(path).read(); lines=src.split('\n'); d=os.path.dirname(f)
    # function extents
    starts=[(m.start(),m) for m in fun.finditer(src)]
    def enclosing(off):
        fm=None
        for s,m in starts:
            if s<=off: fm=m
        return fm
    off=0
    for ln,line in enumerate(lines):
        lo=off; off+=len(line)+1
        st=line.strip()
        if not st or st.startswith('//') or st.startswith('dbg(') or 'fmt.Errorf' in st or 'errors.New' in st or st.startswith('panic('): continue
        fm=enclosing(lo)
        if not fm: continue
        recv=fm.group(4); star=fm.group(3) or ''; name=fm.group(5)
        key=pkgof[d]+'.'+(('(%s%s).'%(star,recv)) if recv else '')+name
        keys=[k for k,v in contracted.items() if v and (k==key or k.startswith(key+'$'))]
        if not keys: continue
        # is the line inside the function body? (until next top-level func)
        for pat,rep,opname in ops:
            for m in re.finditer(pat,line):
                if m.start()>0 and '"' in line[:m.start()] and line[:m.start()].count('"')%2==1: continue
                new=line[:m.start()]+rep(m)+line[m.end():]
                if new==line: continue
                mut='\n'.join(lines[:ln]+[new]+lines[ln+1:])
                open(os.path.join(scratch,f),'w').write(mut)
                b=subprocess.run('cd %s && GOFLAGS=-mod=mod GOPROXY=off go build ./%s 2>&1 | head -3'%(scratch,d or '.'),shell=True,capture_output=True,text=True).stdout
                if b.strip():
                    continue
                out=subprocess.run([GOWP,'-repo',scratch,'-v','-funcs',','.join(keys)],capture_output=True,text=True).stdout
                bad=[l.strip().split('  [')[0] for l in out.split('\n') if re.match(r'\s+(refuted|undecided)\s',l) and 'cover@' not in l and not any(k in l for k in known)]
                eng=[l for l in out.split('\n') if 'ENGINE' in l]
                vac=[l.strip().split('  [')[0] for l in out.split('\n') if re.match(r'\s+vacuous\s',l)]
                status='caught' if (bad or eng) else ('vacuity-only' if vac else 'SURVIVES')
                r={'file':f,'line':ln+1,'func':key,'op':opname,'status':status,'by':(bad[:1] or eng[:1] or vac[:1] or [''])[0][:160],'mutated':new.strip()[:160]}
                res.append(r)
                if status!='caught': print(json.dumps(r),flush=True)
    open(os.path.join(scratch,f),'w').write(src)
    from collections import Counter
    print('##',f,Counter(r['status'] for r in res if r['file']==f),flush=True)
shutil.rmtree(tmp)
from collections import Counter
print(Counter(r['status'] for r in res))
json.dump(res,open('/verif/selftest/mutation_report.json','w'),indent=1)
