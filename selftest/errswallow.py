#!/usr/bin/env python3
"""errswallow.py: mechanical mutation campaign for "storage faults surface as errors" (C14).
For every `if err != nil { return ... }` block in a function under contract, a mutant
ignores the error (`_ = err`) and the enclosing function is re-verified on a scratch
copy. A mutant that still verifies means no obligation notices the swallowed error.
Usage: errswallow.py [file-filter-regexp]   (report on stdout; nothing in /repo is touched)"""
import re, os, sys, subprocess, shutil, tempfile, json
REPO='/repo'; GOWP=os.environ.get('GOWP','/verif/bin/gowp')
files=['vtable_common.go','open.go','key.go','row.go','kv/kv.go','kv/crypto.go','kv/internal/crdt/crdt.go','sqlite/vtable.go','sqlite/s3db_changes.go','sqlite/s3db_conn.go','sqlite/s3db_refresh.go','sqlite/s3db_version.go','sqlite/vacuum.go']
pkgof={'':'github.com/jrhy/s3db','kv':'github.com/jrhy/s3db/kv','kv/internal/crdt':'github.com/jrhy/s3db/kv/internal/crdt','sqlite':'github.com/jrhy/s3db/sqlite'}
flt=re.compile(sys.argv[1]) if len(sys.argv)>1 else None
contracted=set()
for d in pkgof:
    p=os.path.join(REPO,d,'zz_verif_contracts.go')
    if os.path.exists(p):
        trusted=False
        for l in open(p):
            m=re.match(r'//@ func (\S+)',l)
            if m: cur=pkgof[d]+'.'+m.group(1); contracted.add(cur)
blk=re.compile(r'\n(\t+)if (err\d?|\w*[eE]rr) != nil \{\n\t+return [^\n]*\n\t+\}')
fun=re.compile(r'^func (\((\w+ )?(\*?)(\w+)\) )?(\w+)\(',re.M)
tmp=tempfile.mkdtemp(prefix='errsw')
scratch=os.path.join(tmp,'repo')
shutil.copytree(REPO,scratch,ignore=shutil.ignore_patterns('.git'))
res=[]
for f in files:
    if flt and not flt.search(f): continue
    src=open(os.path.join(REPO,f)).read()
    d=os.path.dirname(f)
    for m in blk.finditer(src):
        # enclosing function
        fm=None
        for x in fun.finditer(src[:m.start()]): fm=x
        if not fm: continue
        recv=fm.group(4); star=fm.group(3) or ''; name=fm.group(5)
        key=pkgof[d]+'.'+(('(%s%s).'%(star,recv)) if recv else '')+name
        line=src[:m.start()].count('\n')+2
        # closures: the block may sit in a func literal; verify the function and its $N closures
        keys=[k for k in contracted if k==key or k.startswith(key+'$')]
        if not keys:
            res.append((f,line,key,'no-contract')); continue
        mut=src[:m.start()]+'\n'+m.group(1)+'_ = '+m.group(2)+src[m.end():]
        open(os.path.join(scratch,f),'w').write(mut)
        b=subprocess.run('cd %s && GOFLAGS=-mod=mod GOPROXY=off go build ./... 2>&1 | head -3'%scratch,shell=True,capture_output=True,text=True).stdout
        if b.strip():
            res.append((f,line,key,'does-not-compile')); open(os.path.join(scratch,f),'w').write(src); continue
        out=subprocess.run([GOWP,'-repo',scratch,'-v','-funcs',','.join(keys)],capture_output=True,text=True).stdout
        bad=[l.strip().split('  [')[0] for l in out.split('\n') if re.match(r'\s+(refuted|undecided)\s',l) and 'cover@' not in l and 'no-cache-remembers' not in l and 'not-discarded' not in l and 'later-statement-wins' not in l]
        eng=[l for l in out.split('\n') if 'ENGINE' in l]
        vac=[l.strip() for l in out.split('\n') if re.match(r'\s+vacuous\s',l)]
        status='caught' if (bad or eng) else ('vacuity-only' if vac else 'SURVIVES')
        res.append((f,line,key,status,(bad[:1] or eng[:1] or vac[:1] or [''])[0][:140]))
        open(os.path.join(scratch,f),'w').write(src)
        print(res[-1],flush=True)
shutil.rmtree(tmp)
from collections import Counter
print(Counter(r[3] for r in res))
json.dump(res,open('/verif/selftest/errswallow_report.json','w'),indent=1)
